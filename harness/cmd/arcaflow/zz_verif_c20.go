//go:build verif

package main

import (
	"context"

	"go.arcalot.io/log/v2"
	"go.flow.arcalot.io/engine"
	"go.flow.arcalot.io/engine/internal/verifrt"
	"go.flow.arcalot.io/engine/loadfile"
	"go.flow.arcalot.io/pluginsdk/schema"
)

type vLogger struct{}

func (vLogger) Debugf(format string, args ...interface{})                 {}
func (vLogger) Infof(format string, args ...interface{})                  {}
func (vLogger) Warningf(format string, args ...interface{})               {}
func (vLogger) Errorf(format string, args ...interface{})                 {}
func (vLogger) Writef(level log.Level, format string, args ...interface{}) {}
func (vLogger) WithLabel(name string, value string) log.Logger            { return vLogger{} }

type vEngine struct {
	parseFails bool
	wf         *vWorkflow
}

func (e *vEngine) RunWorkflow(ctx context.Context, input []byte, c loadfile.FileCache, f string) (string, any, bool, error) {
	return "", nil, true, nil
}
func (e *vEngine) Parse(c loadfile.FileCache, f string) (engine.Workflow, error) {
	if e.parseFails {
		return nil, &verifrt.Err{Msg: "invalid workflow"}
	}
	return e.wf, nil
}

type vWorkflow struct {
	runFails  bool
	outputErr bool
	ran       bool
}

func (w *vWorkflow) Run(ctx context.Context, input []byte) (string, any, bool, error) {
	w.ran = true
	if w.runFails {
		return "", nil, true, &verifrt.Err{Msg: "run failed"}
	}
	return "out", map[string]any{}, w.outputErr, nil
}
func (w *vWorkflow) InputSchema() schema.Scope                              { return nil }
func (w *vWorkflow) Outputs() map[string]schema.StepOutput                  { return nil }
func (w *vWorkflow) Namespaces() map[string]map[string]*schema.ObjectSchema { return nil }

// redirect targets
func verifMarshal(v any) ([]byte, error) {
	if verifrt.Choice("marshal", 2) == 1 {
		return nil, &verifrt.Err{Msg: "cannot marshal"}
	}
	return []byte("x"), nil
}

// C20: the exit code classifies the result: parse error 1, run error 3, error output 2, otherwise 0.
func VerifH_C20_exit_codes() {
	w := &vWorkflow{runFails: verifrt.Choice("run", 2) == 1, outputErr: verifrt.NondetBool("outputIsError")}
	e := &vEngine{parseFails: verifrt.Choice("parse", 2) == 1, wf: w}
	code := runWorkflow(e, nil, "workflow.yaml", vLogger{}, []byte("{}"), false)
	switch {
	case e.parseFails:
		verifrt.Reach("parse-error")
		verifrt.Assert(code == ExitCodeInvalidData, "an invalid workflow exits with code 1")
		verifrt.Assert(!w.ran, "an invalid workflow is not run")
	case w.runFails:
		verifrt.Reach("run-error")
		verifrt.Assert(code == ExitCodeWorkflowFailed, "a failed run exits with code 3")
	default:
		verifrt.Reach("output")
		if code != ExitCodeInvalidData { // output could not be marshalled
			if w.outputErr {
				verifrt.Assert(code == ExitCodeWorkflowErrorOutput, "an error output exits with code 2")
			} else {
				verifrt.Assert(code == ExitCodeOK, "a regular output exits with code 0")
			}
		}
	}
	verifrt.Settle()
	verifrt.Assert(verifrt.LiveGoroutines() == 0, "the interrupt handler goroutine ends with runWorkflow")
}
