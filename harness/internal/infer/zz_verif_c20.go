//go:build verif

package infer

import (
	"go.flow.arcalot.io/engine/internal/verifrt"
	"go.flow.arcalot.io/pluginsdk/schema"
)

var verifCounter int

func verifObjectID(purpose string) string {
	verifCounter++
	return purpose + "_" + string(rune('a'+verifCounter%26))
}

// C20: an inferred output is flagged as error exactly when it is named "error"; an explicit schema is kept.
func VerifH_C20_inferred_error_flag() {
	id := verifrt.NondetString("outputID")
	data := map[any]any{"x": "text"}
	if verifrt.Choice("explicit", 2) == 1 {
		verifrt.Reach("explicit")
		declared := verifrt.NondetBool("declaredError")
		explicit := schema.NewStepOutputSchema(schema.NewScopeSchema(schema.NewObjectSchema("o", map[string]*schema.PropertySchema{})), nil, declared)
		s, err := OutputSchema(data, id, explicit, nil, nil, nil)
		verifrt.Assert(err == nil && s == explicit, "an explicit output schema is used as given")
		verifrt.Assert(s.Error() == declared, "the error flag of an explicit schema is the declared one")
		return
	}
	verifrt.Reach("inferred")
	s, err := OutputSchema(data, id, nil, nil, nil, nil)
	verifrt.Assert(err == nil && s != nil, "the output schema is inferred")
	if err == nil {
		verifrt.Assert(s.Error() == (id == "error"), "an inferred output is an error output exactly when it is named 'error'")
	}
}
