//go:build verif

package builtinfunctions

import (
	"strings"
	"math"

	"go.flow.arcalot.io/engine/internal/verifrt"
	"go.flow.arcalot.io/pluginsdk/schema"
)

func verifHandler(f schema.CallableFunction) any {
	return f.(*schema.CallableFunctionSchema).Handler.Interface()
}

// floatToInt: total, NaN => error, infinities saturate, finite in range truncates toward zero.
func VerifH_C18_floatToInt_basic() {
	h := verifHandler(getFloatToIntFunction()).(func(float64) (int64, error))
	a := verifrt.NondetFloat64("a")
	r, err := h(a)
	if a != a { // NaN
		verifrt.Reach("nan")
		verifrt.Assert(err != nil, "floatToInt(NaN) returns an error")
		return
	}
	verifrt.Assert(err == nil, "floatToInt(non-NaN) returns no error")
	if a >= -9223372036854775808.0 && a < 9223372036854775808.0 {
		verifrt.Reach("in-range")
		// truncation toward zero: the result, as a float, is exactly trunc(a)
		verifrt.Assert(float64(r) == math.Trunc(a), "floatToInt truncates toward zero")
	}
	if math.IsInf(a, 1) {
		verifrt.Reach("+inf")
		verifrt.Assert(r == math.MaxInt64, "floatToInt(+Inf) saturates to MaxInt64")
	}
	if math.IsInf(a, -1) {
		verifrt.Reach("-inf")
		verifrt.Assert(r == math.MinInt64, "floatToInt(-Inf) saturates to MinInt64")
	}
}

// floatToInt is monotonic and saturates for finite out-of-range values.
func VerifH_C18_floatToInt_saturates() {
	h := verifHandler(getFloatToIntFunction()).(func(float64) (int64, error))
	a := verifrt.NondetFloat64("a")
	verifrt.Assume(a == a)
	r, _ := h(a)
	if a >= 9223372036854775808.0 {
		verifrt.Reach("above")
		verifrt.Assert(r == math.MaxInt64, "floatToInt saturates above MaxInt64")
	}
	if a < -9223372036854775808.0 {
		verifrt.Reach("below")
		verifrt.Assert(r == math.MinInt64, "floatToInt saturates below MinInt64")
	}
}

func VerifH_C18_floatToInt_monotonic() {
	h := verifHandler(getFloatToIntFunction()).(func(float64) (int64, error))
	a := verifrt.NondetFloat64("a")
	b := verifrt.NondetFloat64("b")
	verifrt.Assume(a == a && b == b && a <= b)
	ra, _ := h(a)
	rb, _ := h(b)
	verifrt.Assert(ra <= rb, "floatToInt is monotonic")
}

// intToFloat is the IEEE conversion, and floatToInt inverts it on exactly representable integers.
func VerifH_C18_intToFloat_roundtrip() {
	i2f := verifHandler(getIntToFloatFunction()).(func(int64) float64)
	f2i := verifHandler(getFloatToIntFunction()).(func(float64) (int64, error))
	x := verifrt.NondetInt64("x")
	f := i2f(x)
	verifrt.Assert(f == float64(x), "intToFloat is the nearest-float conversion")
	if x >= -(1<<53) && x <= 1<<53 {
		verifrt.Reach("exact")
		r, err := f2i(f)
		verifrt.Assert(err == nil, "floatToInt(intToFloat(x)) has no error")
		verifrt.Assert(r == x, "floatToInt(intToFloat(x)) == x for |x| <= 2^53")
	}
}

// floor / ceil / round / abs are wired to functions obeying the declared laws.
func VerifH_C18_floor_law() {
	h := verifHandler(getFloorFunction()).(func(float64) float64)
	x := verifrt.NondetFloat64("x")
	r := h(x)
	if x != x {
		verifrt.Assert(r != r, "floor(NaN) is NaN")
		return
	}
	if math.IsInf(x, 0) {
		verifrt.Assert(r == x, "floor(±Inf) = ±Inf")
		return
	}
	verifrt.Reach("finite")
	verifrt.Assert(r <= x, "floor(x) <= x")
	verifrt.Assert(x < r+1 || x == r, "x < floor(x) + 1")
	verifrt.Assert(math.Trunc(r) == r, "floor(x) is integral")
}

func VerifH_C18_ceil_law() {
	h := verifHandler(getCeilFunction()).(func(float64) float64)
	x := verifrt.NondetFloat64("x")
	r := h(x)
	if x != x {
		verifrt.Assert(r != r, "ceil(NaN) is NaN")
		return
	}
	if math.IsInf(x, 0) {
		verifrt.Assert(r == x, "ceil(±Inf) = ±Inf")
		return
	}
	verifrt.Reach("finite")
	verifrt.Assert(r >= x, "ceil(x) >= x")
	verifrt.Assert(x > r-1 || x == r, "x > ceil(x) - 1")
	verifrt.Assert(math.Trunc(r) == r, "ceil(x) is integral")
}

func VerifH_C18_round_law() {
	h := verifHandler(getRoundFunction()).(func(float64) float64)
	x := verifrt.NondetFloat64("x")
	r := h(x)
	if x != x {
		verifrt.Assert(r != r, "round(NaN) is NaN")
		return
	}
	if math.IsInf(x, 0) {
		verifrt.Assert(r == x, "round(±Inf) = ±Inf")
		return
	}
	verifrt.Reach("finite")
	verifrt.Assert(math.Trunc(r) == r, "round(x) is integral")
	d := r - x
	verifrt.Assert(d <= 0.5 && d >= -0.5, "|round(x) - x| <= 0.5")
	if x-math.Trunc(x) == 0.5 {
		verifrt.Reach("tie+")
		verifrt.Assert(r == math.Trunc(x)+1, "round half away from zero (positive tie)")
	}
	if x-math.Trunc(x) == -0.5 {
		verifrt.Reach("tie-")
		verifrt.Assert(r == math.Trunc(x)-1, "round half away from zero (negative tie)")
	}
}

func VerifH_C18_abs_law() {
	h := verifHandler(getAbsFunction()).(func(float64) float64)
	x := verifrt.NondetFloat64("x")
	r := h(x)
	if x != x {
		verifrt.Assert(r != r, "abs(NaN) is NaN")
		return
	}
	verifrt.Reach("non-nan")
	verifrt.Assert(r >= 0, "abs(x) >= 0")
	verifrt.Assert(r == x || r == -x, "abs(x) is x or -x")
}

// intToString / stringToInt: round trip identity; parse failure is an error, never a fault.
func VerifH_C18_intToString_roundtrip() {
	i2s := verifHandler(getIntToStringFunction()).(func(int64) string)
	s2i := verifHandler(getStringToIntFunction()).(func(string) (int64, error))
	x := verifrt.NondetInt64("x")
	if m := int64(verifrt.Param("absmax", 0)); m > 0 {
		// stated bound: the string theory's int<->string conversion over the full 64-bit range is
		// beyond the solvers here (unknown after 10 min); the extreme values are covered by
		// VerifH_C18_stringToInt_edges
		verifrt.Assume(x >= -m && x <= m)
	}
	s := i2s(x)
	r, err := s2i(s)
	verifrt.Assert(err == nil, "stringToInt(intToString(x)) has no error")
	verifrt.Assert(r == x, "stringToInt(intToString(x)) == x")
}

func verifParamPattern(f schema.CallableFunction, i int) string {
	return f.(*schema.CallableFunctionSchema).InputsValue[i].(*schema.StringSchema).PatternValue.String()
}

func verifOutputPattern(f schema.CallableFunction) string {
	return f.(*schema.CallableFunctionSchema).StaticOutputValue.(*schema.StringSchema).PatternValue.String()
}

// Literals admitted by stringToInt's declared parameter pattern at the edges of the int64 range:
// in range => the value, out of range => an error (never a fault, never a wrapped-around value).
func VerifH_C18_stringToInt_edges() {
	fn := getStringToIntFunction()
	s2i := verifHandler(fn).(func(string) (int64, error))
	// leading zeros are admitted by the pattern and must not switch the base ("010" is ten, not eight)
	lits := []string{"9223372036854775807", "-9223372036854775808", "-0", "007", "010", "-012", "0100", "9223372036854775808", "-9223372036854775809", "99999999999999999999999"}
	want := []int64{9223372036854775807, -9223372036854775808, 0, 7, 10, -12, 100}
	k := verifrt.Choice("literal", len(lits))
	verifrt.Assert(verifrt.MatchGoRegex(lits[k], verifParamPattern(fn, 0)), "literal admitted by the parameter pattern")
	r, err := s2i(lits[k])
	if k < len(want) {
		verifrt.Assert(err == nil && r == want[k], "stringToInt parses in-range literal")
	} else {
		verifrt.Reach("out-of-range")
		verifrt.Assert(err != nil, "stringToInt reports out-of-range literal as an error")
	}
}

// boolToString / stringToBool.
func VerifH_C18_bool_roundtrip() {
	fn := getBooleanToStringFunction()
	b2s := verifHandler(fn).(func(bool) string)
	s2b := verifHandler(getStringToBoolFunction()).(func(string) (bool, error))
	b := verifrt.NondetBool("b")
	s := b2s(b)
	verifrt.Assert(verifrt.MatchGoRegex(s, verifOutputPattern(fn)), "boolToString output matches its declared pattern")
	r, err := s2b(s)
	verifrt.Assert(err == nil, "stringToBool(boolToString(b)) has no error")
	verifrt.Assert(r == b, "stringToBool(boolToString(b)) == b")
}

// Every string admitted by stringToBool's declared parameter pattern parses without error, to the documented value.
func VerifH_C18_stringToBool_total() {
	fn := getStringToBoolFunction()
	s2b := verifHandler(fn).(func(string) (bool, error))
	s := verifrt.NondetString("s")
	verifrt.Assume(verifrt.MatchGoRegex(s, verifParamPattern(fn, 0)))
	r, err := s2b(s)
	verifrt.Assert(err == nil, "stringToBool accepts every string its parameter schema admits")
	first := verifrt.MatchGoRegex(s, "^[tT1]")
	verifrt.Assert(r == first, "stringToBool value is true exactly for 1/t/true (any case)")
}

// toLower / toUpper on bounded ASCII strings: length preserved, idempotent, inverse on letters-free strings.
func VerifH_C18_case_laws() {
	lo := verifHandler(getToLowerFunction()).(func(string) string)
	up := verifHandler(getToUpperFunction()).(func(string) string)
	s := verifrt.NondetString("s")
	l := lo(s)
	u := up(s)
	verifrt.Assert(len(l) == len(s), "toLower preserves length (ASCII)")
	verifrt.Assert(len(u) == len(s), "toUpper preserves length (ASCII)")
	verifrt.Assert(!verifrt.MatchGoRegex(l, "[A-Z]"), "toLower output has no upper-case ASCII letter")
	verifrt.Assert(!verifrt.MatchGoRegex(u, "[a-z]"), "toUpper output has no lower-case ASCII letter")
	verifrt.Assert(lo(l) == l, "toLower is idempotent")
	verifrt.Assert(up(u) == u, "toUpper is idempotent")
	verifrt.Assert(lo(u) == l, "toLower(toUpper(s)) == toLower(s)")
}

// floatToString: the produced text conforms to the declared output pattern.
func VerifH_C18_floatToString_pattern() {
	fn := getFloatToStringFunction()
	h := verifHandler(fn).(func(float64) string)
	pat := verifOutputPattern(fn)
	a := verifrt.NondetFloat64("a")
	out := h(a)
	ok := verifrt.MatchGoRegex(out, pat)
	switch {
	case a != a:
		verifrt.Assert(ok, "floatToString output matches declared pattern (NaN)")
	case math.IsInf(a, 0):
		verifrt.Assert(ok, "floatToString output matches declared pattern (infinities)")
	case a < 0 || (a == 0 && math.Signbit(a)):
		verifrt.Assert(ok, "floatToString output matches declared pattern (negative)")
	case math.Trunc(a) == a:
		verifrt.Assert(ok, "floatToString output matches declared pattern (integral value)")
	default:
		verifrt.Reach("fraction")
		verifrt.Assert(ok, "floatToString output matches declared pattern (positive non-integral)")
	}
}

var verifVerbs = []string{"f", "e", "E", "g", "G"}
var verifPrecs = []int64{-1, 0, 2}

// floatToFormattedString: output conforms to the declared pattern for the decimal verbs (symbolic value).
func VerifH_C18_floatToFormattedString_pattern() {
	fn := getFloatToFormattedStringFunction()
	hh := verifFormatted(fn)
	h := func(f float64, v string, p int64) string { r, _ := hh(f, v, p); return r }
	pat := verifOutputPattern(fn)
	verb := verifVerbs[verifrt.Choice("verb", len(verifVerbs))]
	verifrt.Assert(verifrt.MatchGoRegex(verb, verifParamPattern(fn, 1)), "verb admitted by parameter pattern")
	prec := verifPrecs[verifrt.Choice("prec", len(verifPrecs))]
	a := verifrt.NondetFloat64("a")
	out := h(a, verb, prec)
	ok := verifrt.MatchGoRegex(out, pat)
	switch {
	case a != a:
		verifrt.Assert(ok, "floatToFormattedString output matches declared pattern (NaN)")
	case math.IsInf(a, 0):
		verifrt.Assert(ok, "floatToFormattedString output matches declared pattern (infinities)")
	default:
		verifrt.Reach("finite")
		verifrt.Assert(ok, "floatToFormattedString output matches declared pattern (finite, verb "+verb+")")
	}
}

// verifFormatted calls the floatToFormattedString handler whether or not it returns an error as well.
func verifFormatted(fn schema.CallableFunction) func(float64, string, int64) (string, error) {
	switch h := verifHandler(fn).(type) {
	case func(float64, string, int64) string:
		return func(f float64, v string, p int64) (string, error) { return h(f, v, p), nil }
	case func(float64, string, int64) (string, error):
		return h
	}
	verifrt.Assert(false, "harness: floatToFormattedString has one of the two known handler signatures")
	return nil
}

// floatToFormattedString is total: the pattern of its format parameter is not enforced when the function
// is called with a value computed at run time, so every string is a possible argument; a format that is
// not one of the verbs yields an error or some text, never a fault (concrete probes).
func VerifH_C18_floatToFormattedString_total() {
	h := verifFormatted(getFloatToFormattedStringFunction())
	format := []string{"", "f", "ff", "q", "%", " "}[verifrt.Choice("format", 6)]
	out, err := h(1.5, format, []int64{-1, 0, 2}[verifrt.Choice("precision", 3)])
	verifrt.Reach("returned")
	verifrt.Assert(err != nil || out != "", "floatToFormattedString returns an error or a text for every format string")
	if format == "f" {
		verifrt.Assert(err == nil, "a format that is one of the verbs is accepted")
	}
}

// floatToFormattedString with the hexadecimal verbs on concrete probes (digits are not modelled symbolically).
func VerifH_C18_floatToFormattedString_hex() {
	fn := getFloatToFormattedStringFunction()
	hh := verifFormatted(fn)
	h := func(f float64, v string, p int64) string { r, _ := hh(f, v, p); return r }
	pat := verifOutputPattern(fn)
	vals := []float64{1, 1.5, 1.625, 0.1, -2.75, 1e300, 5e-324, 4503599627370496}
	v := vals[verifrt.Choice("value", len(vals))]
	verb := []string{"x", "X", "b"}[verifrt.Choice("verb", 3)]
	out := h(v, verb, -1)
	verifrt.Assert(verifrt.MatchGoRegex(out, pat), "floatToFormattedString output matches declared pattern (verb "+verb+", concrete probes)")
}

// bindConstants pairs every item with the constant, in order.
func VerifH_C18_bindConstants() {
	h := verifHandler(getBindConstantsFunction()).(func([]any, any) (any, error))
	n := verifrt.Choice("n", 4)
	items := make([]any, n)
	for i := range items {
		items[i] = verifrt.NondetVal("item")
	}
	c := any(verifrt.NondetVal("c"))
	out, err := h(items, c)
	verifrt.Assert(err == nil, "bindConstants returns no error")
	lst, ok := out.([]any)
	verifrt.Assert(ok, "bindConstants returns a list")
	verifrt.Assert(len(lst) == n, "bindConstants preserves length")
	for i := range lst {
		m, ok := lst[i].(map[string]any)
		verifrt.Assert(ok, "bindConstants element is an object")
		verifrt.Assert(len(m) == 2, "bindConstants element has exactly two properties")
		verifrt.Assert(m[CombinedObjPropertyItemName] == items[i], "bindConstants item k is input item k")
		verifrt.Assert(m[CombinedObjPropertyConstantName] == c, "bindConstants constant is the constant")
	}
}

// The dynamic type handler rejects wrong arity / non-list first argument with an error, not a fault.
func VerifH_C18_bindConstants_type() {
	// precondition: the expression type checker never passes a nil type
	types := []schema.Type{schema.NewIntSchema(nil, nil, nil), schema.NewListSchema(schema.NewIntSchema(nil, nil, nil), nil, nil), schema.NewStringSchema(nil, nil, nil)}
	n := verifrt.Choice("arity", 4)
	in := make([]schema.Type, n)
	for i := range in {
		in[i] = types[verifrt.Choice("type", len(types))]
	}
	t, err := HandleTypeSchemaCombine(in)
	wellFormed := false
	if n == 2 {
		_, wellFormed = in[0].(*schema.ListSchema)
	}
	if wellFormed {
		verifrt.Reach("accepted")
		verifrt.Assert(err == nil && t != nil, "HandleTypeSchemaCombine accepts (list, T)")
	}
	if !wellFormed {
		verifrt.Reach("rejected")
		verifrt.Assert(err != nil, "HandleTypeSchemaCombine rejects ill-formed parameter lists with an error")
	}
}

// The result type bindConstants derives is a function of the argument types of that use alone: the item
// property carries exactly the item type of the first argument and the constants property the second
// argument's type, also when an earlier use in the same process had different argument types of the same
// name (schema names identify objects by id and everything else by its type id only).
func VerifH_C18_bindConstants_type_history() {
	mk := func(k int) schema.Type {
		switch k {
		case 0:
			return schema.NewIntSchema(nil, nil, nil)
		case 1:
			return schema.NewIntSchema(schema.IntPointer(5), nil, nil) // same name "integer", other bounds
		case 2:
			return schema.NewMapSchema(schema.NewStringSchema(nil, nil, nil), schema.NewIntSchema(nil, nil, nil), nil, nil)
		case 3:
			return schema.NewMapSchema(schema.NewStringSchema(nil, nil, nil), schema.NewStringSchema(nil, nil, nil), nil, nil)
		case 4:
			return schema.NewObjectSchema("o", map[string]*schema.PropertySchema{"name": schema.NewPropertySchema(schema.NewStringSchema(nil, nil, nil), nil, true, nil, nil, nil, nil, nil)})
		}
		return schema.NewObjectSchema("o", map[string]*schema.PropertySchema{"count": schema.NewPropertySchema(schema.NewIntSchema(nil, nil, nil), nil, true, nil, nil, nil, nil, nil)})
	}
	for use := 0; use < 2; use++ {
		item, constants := mk(verifrt.Choice("item-type", 6)), mk(verifrt.Choice("constants-type", 6))
		t, err := HandleTypeSchemaCombine([]schema.Type{schema.NewListSchema(item, nil, nil), constants})
		verifrt.Assert(err == nil && t != nil, "HandleTypeSchemaCombine accepts (list, T)")
		l, ok := t.(*schema.ListSchema)
		verifrt.Assert(ok, "the derived type is a list")
		if !ok {
			return
		}
		o, ok := schema.ConvertToObjectSchema(l.ItemsValue)
		verifrt.Assert(ok, "the derived type is a list of objects")
		if !ok {
			return
		}
		props := o.Properties()
		verifrt.Assert(len(props) == 2 && props[CombinedObjPropertyItemName] != nil && props[CombinedObjPropertyConstantName] != nil, "the derived object has the item and the constants property")
		if props[CombinedObjPropertyItemName] == nil || props[CombinedObjPropertyConstantName] == nil {
			return
		}
		verifrt.Assert(verifSameType(props[CombinedObjPropertyItemName].Type(), item), "the item property has the item type of this use's first argument")
		verifrt.Assert(verifSameType(props[CombinedObjPropertyConstantName].Type(), constants), "the constants property has the type of this use's second argument")
		if use == 1 {
			verifrt.Reach("second-use")
		}
	}
}

// verifSameType compares the types the harness above builds by structure (an implementation may copy them).
func verifSameType(a, b schema.Type) bool {
	if a == nil || b == nil || a.TypeID() != b.TypeID() {
		return false
	}
	switch x := a.(type) {
	case *schema.IntSchema:
		y, ok := b.(*schema.IntSchema)
		if !ok || (x.Min() == nil) != (y.Min() == nil) {
			return false
		}
		return x.Min() == nil || *x.Min() == *y.Min()
	case *schema.MapSchema[schema.Type, schema.Type]:
		y, ok := b.(*schema.MapSchema[schema.Type, schema.Type])
		return ok && x.Values().TypeID() == y.Values().TypeID() && x.Keys().TypeID() == y.Keys().TypeID()
	}
	if xo, ok := schema.ConvertToObjectSchema(a); ok {
		yo, ok := schema.ConvertToObjectSchema(b)
		if !ok || xo.ID() != yo.ID() || len(xo.Properties()) != len(yo.Properties()) {
			return false
		}
		for name := range xo.Properties() {
			if yo.Properties()[name] == nil {
				return false
			}
		}
		return true
	}
	return true
}

// floatToString / stringToFloat on the special values of binary64 (the decimal digits of FormatFloat are
// not modelled symbolically, so this law is checked on concrete probes: every class of value and the
// boundaries between them): the round trip is the identity, including the sign of zero.
func VerifH_C18_float_string_roundtrip_special() {
	f2s := verifHandler(getFloatToStringFunction()).(func(float64) string)
	s2f := verifHandler(getStringToFloatFunction()).(func(string) (float64, error))
	vals := []float64{0, math.Copysign(0, -1), 1, -1, 0.1, -0.1, 1e21, -1e21, 1e-7, 123456789.125,
		math.MaxFloat64, -math.MaxFloat64, math.SmallestNonzeroFloat64, -math.SmallestNonzeroFloat64,
		math.Inf(1), math.Inf(-1), math.NaN(), 9007199254740993, 4.9406564584124654e-324, 2.2250738585072014e-308}
	a := vals[verifrt.Choice("value", len(vals))]
	s := f2s(a)
	r, err := s2f(s)
	verifrt.Assert(err == nil, "stringToFloat(floatToString(a)) has no error")
	if a != a {
		verifrt.Reach("nan")
		verifrt.Assert(r != r, "NaN survives the round trip")
		return
	}
	verifrt.Assert(r == a, "stringToFloat(floatToString(a)) == a")
	verifrt.Assert(math.Signbit(r) == math.Signbit(a), "the round trip keeps the sign (of zero too)")
}

// splitString on concrete probes (strings.Split is not modelled symbolically): the result is a value of the
// declared output type (a list within the declared length bounds), re-joining gives the string back, and no
// part contains the separator.
func VerifH_C18_splitString_probes() {
	fn := getSplitStringFunction()
	h := verifHandler(fn).(func(string, string) []string)
	strs := []string{"", "a", "a,b", ",", ",,", "ab", "a,b,c"}
	seps := []string{"", ",", "ab", ",,"}
	s := strs[verifrt.Choice("string", len(strs))]
	sep := seps[verifrt.Choice("separator", len(seps))]
	parts := h(s, sep)
	out, ok := fn.(*schema.CallableFunctionSchema).StaticOutputValue.(*schema.ListSchema)
	verifrt.Assert(ok, "splitString declares a list as its result")
	if ok {
		if out.MinValue != nil {
			verifrt.Assert(int64(len(parts)) >= *out.MinValue, "splitString returns at least the declared minimum number of items")
		}
		if out.MaxValue != nil {
			verifrt.Assert(int64(len(parts)) <= *out.MaxValue, "splitString returns at most the declared maximum number of items")
		}
	}
	joined := ""
	for i, p := range parts {
		if i > 0 {
			joined += sep
		}
		joined += p
		if sep != "" {
			verifrt.Assert(!strings.Contains(p, sep), "no part contains the separator")
		}
	}
	verifrt.Assert(joined == s, "joining the parts with the separator gives the string back")
}
