//go:build verif

package builtinfunctions

import (
	"math"

	"go.flow.arcalot.io/engine/internal/verifrt"
	"go.flow.arcalot.io/pluginsdk/schema"
)

func verifHandler(f schema.CallableFunction) any {
	return f.(*schema.CallableFunctionSchema).Handler.Interface()
}

// floatToInt: total, NaN => error, infinities saturate, finite in range truncates toward zero.
func VerifH_C18_floatToInt_basic() {
	h := verifHandler(getFloatToIntFunction()).(func(float64) (int64, error))
	a := verifrt.NondetFloat64("a")
	r, err := h(a)
	if a != a { // NaN
		verifrt.Reach("nan")
		verifrt.Assert(err != nil, "floatToInt(NaN) returns an error")
		return
	}
	verifrt.Assert(err == nil, "floatToInt(non-NaN) returns no error")
	if a >= -9223372036854775808.0 && a < 9223372036854775808.0 {
		verifrt.Reach("in-range")
		// truncation toward zero: |r| <= |a| < |r|+1 and same sign
		f := float64(r)
		if a >= 0 {
			verifrt.Assert(f <= a && a-f < 1, "floatToInt truncates toward zero (non-negative)")
		} else {
			verifrt.Assert(f >= a && f-a < 1, "floatToInt truncates toward zero (negative)")
		}
	}
	if math.IsInf(a, 1) {
		verifrt.Reach("+inf")
		verifrt.Assert(r == math.MaxInt64, "floatToInt(+Inf) saturates to MaxInt64")
	}
	if math.IsInf(a, -1) {
		verifrt.Reach("-inf")
		verifrt.Assert(r == math.MinInt64, "floatToInt(-Inf) saturates to MinInt64")
	}
}

// floatToInt is monotonic and saturates for finite out-of-range values.
func VerifH_C18_floatToInt_saturates() {
	h := verifHandler(getFloatToIntFunction()).(func(float64) (int64, error))
	a := verifrt.NondetFloat64("a")
	verifrt.Assume(a == a)
	r, _ := h(a)
	if a >= 9223372036854775808.0 {
		verifrt.Reach("above")
		verifrt.Assert(r == math.MaxInt64, "floatToInt saturates above MaxInt64")
	}
	if a < -9223372036854775808.0 {
		verifrt.Reach("below")
		verifrt.Assert(r == math.MinInt64, "floatToInt saturates below MinInt64")
	}
}

func VerifH_C18_floatToInt_monotonic() {
	h := verifHandler(getFloatToIntFunction()).(func(float64) (int64, error))
	a := verifrt.NondetFloat64("a")
	b := verifrt.NondetFloat64("b")
	verifrt.Assume(a == a && b == b && a <= b)
	ra, _ := h(a)
	rb, _ := h(b)
	verifrt.Assert(ra <= rb, "floatToInt is monotonic")
}
