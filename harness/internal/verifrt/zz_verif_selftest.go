//go:build verif

package verifrt

import (
	"slices"
	"sort"
	"strings"
	"sync"
	"sync/atomic"
)

// VerifH_selftest_natives exercises the executor's models of library calls the repository does not use
// today but a change may introduce (engine self-test, not a property check).
func VerifH_selftest_natives() {
	x := []int{3, 1, 2}
	sort.Slice(x, func(i, j int) bool { return x[i] < x[j] })
	Assert(x[0] == 1 && x[1] == 2 && x[2] == 3, "sort.Slice sorts")
	y := []string{"b", "c", "a"}
	slices.SortFunc(y, func(a, b string) int { return strings.Compare(a, b) })
	Assert(y[0] == "a" && y[2] == "c", "slices.SortFunc sorts")
	slices.Reverse(y)
	Assert(y[0] == "c", "slices.Reverse reverses")

	var rw sync.RWMutex
	var n atomic.Int64
	var plain int32
	var once sync.Once
	var m sync.Map
	shared := 0
	var wg sync.WaitGroup
	for i := 0; i < 2; i++ {
		i := i
		wg.Add(1)
		go func() {
			defer wg.Done()
			once.Do(func() { shared = 10 })
			rw.RLock()
			_ = shared
			rw.RUnlock()
			rw.Lock()
			shared++
			rw.Unlock()
			n.Add(2)
			atomic.AddInt32(&plain, 3)
			m.Store(i, i*i)
		}()
	}
	wg.Wait()
	Assert(shared == 12, "Once ran once; RWMutex writers excluded each other")
	Assert(n.Load() == 4, "atomic.Int64 counts")
	Assert(atomic.LoadInt32(&plain) == 6, "atomic.AddInt32 counts")
	sum := 0
	m.Range(func(k, v any) bool { sum += v.(int); return true })
	Assert(sum == 1, "sync.Map.Range visits every entry")
	Reach("done")
}
