//go:build verif

package verifrt

import "math"

func float64frombits(b uint64) float64 { return math.Float64frombits(b) }
