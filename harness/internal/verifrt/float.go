//go:build verif

package verifrt

import (
	"math"
	"regexp"
)

func float64frombits(b uint64) float64 { return math.Float64frombits(b) }

func regexpMatch(pattern, s string) (bool, error) { return regexp.MatchString(pattern, s) }
