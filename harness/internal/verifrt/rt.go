//go:build verif

// Package verifrt is the harness runtime of the /verif machinery.
//
// Under the symbolic executor (symgo) the functions marked "intercepted" are
// replaced by engine primitives: Nondet* return SMT terms, Choice is a
// decision of the exploration, Assert/Assume talk to the solver.  Compiled
// natively (go test -tags verif -overlay ...) the same functions read a replay
// vector (VERIF_REPLAY) so a counterexample found by the solver can be re-run
// against the real build.
package verifrt

import (
	"context"
	"encoding/json"
	"fmt"
	"os"
	"sync"
	"time"
)

// Val is an opaque payload value: code under test never looks inside.
type Val int64

// Err is the error type the engine uses for fmt.Errorf / errors.New results.
type Err struct {
	Msg     string
	Wrapped error
}

func (e *Err) Error() string { return e.Msg }
func (e *Err) Unwrap() error { return e.Wrapped }

// ---------------------------------------------------------------------------
// replay vector (native mode only)

type replayVec struct {
	Values  map[string][]json.RawMessage `json:"values"`
	Choices []int                        `json:"choices"`
}

var (
	rmu      sync.Mutex
	rvec     *replayVec
	rpos     = map[string]int{}
	cpos     int
	Failures []string
)

func loadReplay() *replayVec {
	if rvec != nil {
		return rvec
	}
	rvec = &replayVec{Values: map[string][]json.RawMessage{}}
	if p := os.Getenv("VERIF_REPLAY"); p != "" {
		b, err := os.ReadFile(p)
		if err != nil {
			panic(err)
		}
		var f struct {
			Native replayVec `json:"native"`
		}
		if err := json.Unmarshal(b, &f); err != nil {
			panic(err)
		}
		*rvec = f.Native
		if rvec.Values == nil {
			rvec.Values = map[string][]json.RawMessage{}
		}
	}
	return rvec
}

func next(name string, into any) bool {
	rmu.Lock()
	defer rmu.Unlock()
	r := loadReplay()
	vs := r.Values[name]
	i := rpos[name]
	rpos[name] = i + 1
	if i >= len(vs) {
		return false
	}
	if err := json.Unmarshal(vs[i], into); err != nil {
		panic(fmt.Sprintf("replay value %s[%d]: %v", name, i, err))
	}
	return true
}

// ResetReplay restarts consumption of the replay vector (native mode).
func ResetReplay() {
	rmu.Lock()
	defer rmu.Unlock()
	rpos = map[string]int{}
	cpos = 0
	Failures = nil
}

// ---------------------------------------------------------------------------
// intercepted primitives

func NondetBool(name string) bool       { var v bool; next(name, &v); return v }
func NondetInt64(name string) int64     { var v int64; next(name, &v); return v }
func NondetInt(name string) int         { var v int; next(name, &v); return v }
func NondetUint64(name string) uint64   { var v uint64; next(name, &v); return v }
func NondetInt32(name string) int32     { var v int32; next(name, &v); return v }
func NondetUint8(name string) uint8     { var v uint8; next(name, &v); return v }
func NondetString(name string) string   { var v string; next(name, &v); return v }
func NondetVal(name string) Val         { var v int64; next(name, &v); return Val(v) }
func NondetFloat64(name string) float64 {
	// floats are stored as IEEE-754 bit patterns
	var bits uint64
	if next(name, &bits) {
		return float64frombits(bits)
	}
	return 0
}

// Choice returns a value in [0,n): a decision variable of the exploration.
func Choice(name string, n int) int {
	rmu.Lock()
	defer rmu.Unlock()
	r := loadReplay()
	if cpos < len(r.Choices) {
		c := r.Choices[cpos]
		cpos++
		if c < n {
			return c
		}
	}
	return 0
}

type assumeFailed struct{}

// Assume restricts the paths considered.
func Assume(c bool) {
	if !c {
		panic(assumeFailed{})
	}
}

// Assert states the property.
func Assert(c bool, label string) {
	if !c {
		rmu.Lock()
		Failures = append(Failures, label)
		rmu.Unlock()
		fmt.Printf("VERIF-ASSERT-FAILED %s\n", label)
	}
}

// Reach marks a reachability witness (vacuity guard).
func Reach(label string) {}

// Event adds a line to the path's event log.
func Event(s string) {}

// Yield is a scheduling point.
func Yield(what string) {}

// Now is the virtual clock in nanoseconds.
func Now() int64 { return time.Now().UnixNano() }

// Symbolic reports whether the code runs under the symbolic executor.
func Symbolic() bool { return false }

// IsSym reports whether v contains a symbolic leaf.
func IsSym(v any) bool { return false }

// LiveGoroutines is the number of goroutines of the code under test still alive.
func LiveGoroutines() int { return 0 }

// LiveGoroutineInfo describes them.
func LiveGoroutineInfo() string { return "" }

// Settle lets all other goroutines run until none can make progress.
func Settle() { time.Sleep(50 * time.Millisecond) }

// TimerChan is time.After with an int64 payload.
func TimerChan(d int64) <-chan int64 {
	c := make(chan int64, 1)
	go func() { time.Sleep(time.Duration(d)); c <- d }()
	return c
}

// UF is an uninterpreted function Val^n -> Val (natively: a fixed mixing function).
func UF(name string, args ...Val) Val {
	h := uint64(1469598103934665603)
	for _, c := range []byte(name) {
		h = (h ^ uint64(c)) * 1099511628211
	}
	for _, a := range args {
		h = (h ^ uint64(a)) * 1099511628211
	}
	return Val(h)
}

// UFBool is an uninterpreted predicate.
func UFBool(name string, args ...Val) bool { return UF(name, args...)&1 == 0 }

// StrInRe: membership of s in the SMT-LIB regular language re (symbolic mode only).
func StrInRe(s string, re string) bool { return true }

// ---------------------------------------------------------------------------
// context, implemented on channels so that the scheduler controls it

var ErrCanceled error = &Err{Msg: "context canceled"}
var ErrDeadline error = &Err{Msg: "context deadline exceeded"}

type vctx struct {
	done     chan struct{}
	err      error
	children []*vctx
}

func (c *vctx) Deadline() (time.Time, bool) { return time.Time{}, false }
func (c *vctx) Done() <-chan struct{}        { return c.done }
func (c *vctx) Err() error                   { return atomicErr(c) }
func (c *vctx) Value(key any) any            { return nil }

func atomicErr(c *vctx) error { return c.err }

func atomicCancel(c *vctx, err error) {
	if c.err != nil || c.done == nil {
		return
	}
	c.err = err
	close(c.done)
	for _, ch := range c.children {
		atomicCancel(ch, err)
	}
}

func atomicLink(parent context.Context, c *vctx) {
	if p, ok := parent.(*vctx); ok {
		if p.err != nil {
			atomicCancel(c, p.err)
			return
		}
		p.children = append(p.children, c)
	}
}

// CtxBackground replaces context.Background.
func CtxBackground() context.Context { return &vctx{} }

// CtxWithCancel replaces context.WithCancel.
func CtxWithCancel(parent context.Context) (context.Context, context.CancelFunc) {
	c := &vctx{done: make(chan struct{})}
	atomicLink(parent, c)
	return c, func() {
		Yield("cancel")
		atomicCancel(c, ErrCanceled)
	}
}

// CtxWithTimeout replaces context.WithTimeout.
func CtxWithTimeout(parent context.Context, d time.Duration) (context.Context, context.CancelFunc) {
	c := &vctx{done: make(chan struct{})}
	atomicLink(parent, c)
	t := TimerChan(int64(d))
	go func() {
		select {
		case <-t:
			atomicCancel(c, ErrDeadline)
		case <-c.done:
		}
	}()
	return c, func() {
		Yield("cancel")
		atomicCancel(c, ErrCanceled)
	}
}

// Param returns a harness size parameter (from the check configuration under
// the symbolic executor; the default natively unless VERIF_PARAM_<name> is set).
func Param(name string, def int) int {
	if s := os.Getenv("VERIF_PARAM_" + name); s != "" {
		var v int
		fmt.Sscan(s, &v)
		return v
	}
	return def
}

// MatchGoRegex is regexp.MatchString(pattern, s) (the pattern is translated to
// an SMT regular language under the symbolic executor).
func MatchGoRegex(s string, pattern string) bool {
	m, err := regexpMatch(pattern, s)
	if err != nil {
		panic(err)
	}
	return m
}

// AwaitQuiescence blocks until no other goroutine can run and no timer is pending.
func AwaitQuiescence() { time.Sleep(200 * time.Millisecond) }

// Go starts a harness (system) goroutine: it is not counted by LiveGoroutines.
func Go(f func()) { go f() }

// Same reports whether two interface values are the same value (identical concrete value or the
// same symbolic variable).
func Same(a, b any) bool { return a == b }

// PermuteOnly makes the k-th range over a map in repository code (counted from this call) iterate
// in every order; PermuteOff stops counting and returns how many eligible ranges were executed.
func PermuteOnly(k int) {}
func PermuteOff() int  { return 0 }

// Gid identifies the calling goroutine (symbolic executor only; natively 0).
func Gid() int { return 0 }
