//go:build verif

package plugin

// Environment of the real plugin provider for the symbolic executor: stub
// deployer / ATP client / logger and a recording stage-change handler with the
// lifecycle monitor. Everything here is harness code (part of the claim).

import (
	"context"
	"sync"

	"github.com/fxamacker/cbor/v2"
	"go.arcalot.io/log/v2"
	"go.flow.arcalot.io/deployer"
	"go.flow.arcalot.io/engine/internal/step"
	"go.flow.arcalot.io/engine/internal/verifrt"
	sdkplugin "go.flow.arcalot.io/pluginsdk/plugin"
	"go.flow.arcalot.io/pluginsdk/atp"
	"go.flow.arcalot.io/pluginsdk/schema"
)

type vLogger struct{}

func (vLogger) Debugf(format string, args ...interface{})                 {}
func (vLogger) Infof(format string, args ...interface{})                  {}
func (vLogger) Warningf(format string, args ...interface{})               {}
func (vLogger) Errorf(format string, args ...interface{})                 {}
func (vLogger) Writef(level log.Level, format string, args ...interface{}) {}
func (vLogger) WithLabel(name string, value string) log.Logger            { return vLogger{} }

// vEnv is the scripted environment of one running step.
type vEnv struct {
	deployMode int // 0 ok, 1 error, 2 block until the context is done, then error, 3 block until the context is done, then ok
	schemaMode int // 0 ok, 1 step missing, 2 error
	execMode   int // 0 result immediately, 1 run until cancel signal or connection close
	resultID   string
	resultErr  bool
	hasCancel  bool
	lazy       bool // behaviours are chosen when the stub is reached
	deployModes int // number of deploy behaviours offered (default 3)
	atpCloseErr bool
	plugCloseErr bool
	execStartT  int64
	sawSignal bool
	immediate bool // lazily chosen behaviours never include 'runs until cancelled'
	objectResult bool // the plugin's output data is the object {"v": <opaque>}
	lastResult verifrt.Val
	enabledFalse bool
	stopReturned bool
	stoppedBeforeStart bool
	ignoreSignal bool // the plugin does not react to the cancel signal
	slowClose   bool // stopping a deployed plugin takes (virtual) time
	closeFaults bool // Close() of the ATP client / the plugin may fail
	boolEnabledOnly bool // the enabling input is nil / true / false only (no textual spellings)

	deployments int
	deployCfgs  []any // configuration of the connector behind each deployment, in order
	plugins     []*vPlugin
	execEntered int
	execLive    int
	execMax     int
	signalled   int

	stepSchema *schema.StepSchema
	h          *vHandler
}

type vPlugin struct {
	env      *vEnv
	closedCh chan struct{}
	closes   int
}

func verifAtomicPluginClose(p *vPlugin) {
	p.closes++
	if p.closes == 1 {
		close(p.closedCh)
	}
}

func (p *vPlugin) Read(b []byte) (int, error)  { return 0, nil }
func (p *vPlugin) Write(b []byte) (int, error) { return len(b), nil }
func (p *vPlugin) Close() error {
	verifrt.Yield("plugin.Close")
	if p.env.slowClose {
		<-verifrt.TimerChan(400000000) // stopping the container takes 400 ms
	}
	verifAtomicPluginClose(p)
	if p.env.closeFaults && verifrt.Choice("plugin.Close fails", 2) == 1 {
		return &verifrt.Err{Msg: "plugin close failed"}
	}
	return nil
}
func (p *vPlugin) ID() string { return "container-1" }

type vConnector struct {
	env *vEnv
	cfg any // the deployment configuration the connector was created from (nil: the local deployer)
}

func verifAtomicDeployed(e *vEnv) *vPlugin {
	e.deployments++
	p := &vPlugin{env: e, closedCh: make(chan struct{})}
	e.plugins = append(e.plugins, p)
	return p
}

func (c *vConnector) Deploy(ctx context.Context, src string) (deployer.Plugin, error) {
	if c.env.lazy {
		n := c.env.deployModes
		if n == 0 {
			n = 3
		}
		c.env.deployMode = verifrt.Choice("deployMode", n)
	}
	switch c.env.deployMode {
	case 1:
		return nil, &verifrt.Err{Msg: "deploy failed"}
	case 2:
		<-ctx.Done()
		return nil, &verifrt.Err{Msg: "deploy aborted"}
	case 3:
		// a slow deployment that has already started the container: it completes (and hands the
		// connection over) only after the step's context was cancelled
		<-ctx.Done()
	}
	verifAtomicDeployedWith(c.env, c.cfg)
	return verifAtomicDeployed(c.env), nil
}

func verifAtomicDeployedWith(e *vEnv, cfg any) { e.deployCfgs = append(e.deployCfgs, cfg) }

type vATP struct {
	env *vEnv
	p   *vPlugin
}

// verifNewATPClient replaces atp.NewClientWithLogger (redirected by the check configuration).
func verifNewATPClient(ch atp.ClientChannel, logger log.Logger) atp.Client {
	p, _ := ch.(*vPlugin)
	return &vATP{env: p.env, p: p}
}

func (a *vATP) ReadSchema() (*schema.SchemaSchema, error) {
	if a.env.lazy {
		a.env.schemaMode = verifrt.Choice("schemaMode", 3)
	}
	switch a.env.schemaMode {
	case 1:
		return &schema.SchemaSchema{StepsValue: map[string]*schema.StepSchema{}}, nil
	case 2:
		return nil, &verifrt.Err{Msg: "read schema failed"}
	}
	return &schema.SchemaSchema{StepsValue: map[string]*schema.StepSchema{"wait": a.env.stepSchema}}, nil
}

func verifAtomicExecEnter(e *vEnv) {
	e.execEntered++
	e.execLive++
	if e.execLive > e.execMax {
		e.execMax = e.execLive
	}
	e.h.execAt = len(e.h.events)
}

func verifAtomicSignalled(e *vEnv)              { e.sawSignal = true }
func verifAtomicResult(e *vEnv, v verifrt.Val) { e.lastResult = v }

func verifAtomicExecLeave(e *vEnv, signalled bool) {
	e.execLive--
	if signalled {
		e.signalled++
	}
}

func (a *vATP) Execute(input schema.Input, toStep <-chan schema.Input, fromStep chan<- schema.Input) atp.ExecutionResult {
	verifAtomicExecEnter(a.env)
	if a.env.lazy {
		if !a.env.immediate {
			a.env.execMode = verifrt.Choice("execMode", 2)
		}
		switch verifrt.Choice("result", 3) {
		case 1:
			a.env.resultID = "error"
		case 2:
			a.env.resultErr = true
		}
	}
	signalled := false
	if a.env.execMode == 1 {
		select {
		case _, ok := <-toStep:
			signalled = ok
			if ok && a.env.ignoreSignal {
				verifAtomicSignalled(a.env)
				<-a.p.closedCh
			}
		case <-a.p.closedCh:
		}
	}
	verifAtomicExecLeave(a.env, signalled)
	if a.env.resultErr {
		return atp.ExecutionResult{Error: &verifrt.Err{Msg: "plugin crashed"}}
	}
	v := verifrt.NondetVal("result")
	verifAtomicResult(a.env, v)
	if a.env.objectResult {
		return atp.ExecutionResult{OutputID: a.env.resultID, OutputData: any(map[any]any{"v": v})}
	}
	return atp.ExecutionResult{OutputID: a.env.resultID, OutputData: any(v)}
}
func (a *vATP) Close() error {
	if a.env.closeFaults && verifrt.Choice("atp.Close fails", 2) == 1 {
		return &verifrt.Err{Msg: "client done message could not be written"}
	}
	return nil
}
func (a *vATP) Encoder() *cbor.Encoder { return nil }
func (a *vATP) Decoder() *cbor.Decoder { return nil }

// schema validation stubs (redirect targets)
// VerifScopeHook lets the run-loop harness (package workflow) answer the one ScopeSchema.Unserialize call
// of Prepare (the workflow's input scope, made on the nil scope that the stubbed DescribeScope returns).
var VerifScopeHook func(data any) (any, error)

func verifScopeUnserialize(s *schema.ScopeSchema, data any) (any, error) {
	if s == nil && VerifScopeHook != nil {
		return VerifScopeHook(data)
	}
	return data, nil
}
func verifPropertyUnserialize(p *schema.PropertySchema, data any) (any, error) { return data, nil }

// ---------------------------------------------------------------------------
// recording handler + lifecycle monitor

type vEvent struct {
	kind   string // change | complete | fail
	prev   string
	out    string
	stage  string
	data   any
	hasOut bool
}

type vHandler struct {
	events        []vEvent
	finished      map[string]bool
	failed        map[string]bool
	completes     int
	closeReturned bool
	execAt        int
	declared      map[string]map[string]bool
	schemas       map[string]*schema.StepOutputSchema
	checkShape    bool
	lateNotify    bool

	// a notification handler that is slow: the holdAt-th notification (counted from 0) does not
	// return until the harness closes hold (the run loop's handlers take the run lock, which may be held)
	holdAt  int
	hold    chan struct{}
	notes   int
	held    bool
	mainGid int
}

func newHandler() *vHandler {
	return &vHandler{finished: map[string]bool{}, failed: map[string]bool{}, execAt: -1, holdAt: -1, mainGid: verifrt.Gid()}
}

func (h *vHandler) verifAtomicGate() bool {
	n := h.notes
	h.notes++
	if h.hold != nil && n == h.holdAt && verifrt.Gid() != h.mainGid {
		h.held = true
		return true
	}
	return false
}

// gate blocks the notifying goroutine inside the chosen notification until the harness releases it.
func (h *vHandler) gate() {
	if h.verifAtomicGate() {
		<-h.hold
	}
}

func (h *vHandler) verifAtomicNote(ev vEvent) {
	if h.closeReturned {
		h.lateNotify = true
	}
	h.events = append(h.events, ev)
	switch ev.kind {
	case "change", "complete":
		if ev.prev != "" {
			verifrt.Assert(!h.finished[ev.prev], "a stage is reported finished at most once")
			verifrt.Assert(!h.failed[ev.prev], "a stage is never reported both impossible and finished")
			h.finished[ev.prev] = true
			if h.declared != nil && len(h.declared[ev.prev]) > 0 {
				// the run loop settles the alternatives of a stage's outputs only when the stage finishes
				// with an output (or is declared impossible): finishing without one leaves them pending
				verifrt.Assert(ev.hasOut, "a stage that declares outputs finishes with one of them: "+ev.prev)
			}
			if ev.hasOut && h.declared != nil {
				verifrt.Assert(h.declared[ev.prev][ev.out], "every reported stage output is declared by the lifecycle")
				if os := h.schemas[ev.prev+"."+ev.out]; os != nil && h.checkShape && ev.prev != "outputs" {
					verifrt.Assert(verifConforms(os.Schema(), ev.data), "engine-generated stage output "+ev.prev+"."+ev.out+" conforms to the schema the provider declares for it")
				}
			}
		}
		if ev.kind == "complete" {
			h.completes++
			verifrt.Assert(h.completes == 1, "exactly one completion is reported")
			// once a step shows as finished it owes the workflow nothing: the run loop counts it as idle
			for st, outs := range h.declared {
				if len(outs) > 0 {
					verifrt.Assert(h.finished[st] || h.failed[st], "when the completion is reported every other stage with outputs is already finished or declared impossible: "+st)
				}
			}
		} else {
			verifrt.Assert(h.completes == 0, "no stage change after the completion")
		}
	case "fail":
		verifrt.Assert(!h.finished[ev.stage], "a finished stage is never declared impossible afterwards")
		h.failed[ev.stage] = true
	}
}

func deref(p *string) (string, bool) {
	if p == nil {
		return "", false
	}
	return *p, true
}

func (h *vHandler) OnStageChange(s step.RunningStep, prev *string, outID *string, out *any, stage string, inputAvailable bool, wg *sync.WaitGroup) {
	verifrt.Yield("OnStageChange")
	h.gate()
	p, _ := deref(prev)
	o, has := deref(outID)
	var d any
	if out != nil {
		d = *out
	}
	h.verifAtomicNote(vEvent{kind: "change", prev: p, out: o, hasOut: has, stage: stage, data: d})
}

func (h *vHandler) OnStepComplete(s step.RunningStep, prev string, outID *string, out *any, wg *sync.WaitGroup) {
	verifrt.Yield("OnStepComplete")
	h.gate()
	o, has := deref(outID)
	var d any
	if out != nil {
		d = *out
	}
	h.verifAtomicNote(vEvent{kind: "complete", prev: prev, out: o, hasOut: has, data: d})
}

func (h *vHandler) OnStepStageFailure(s step.RunningStep, stage string, wg *sync.WaitGroup, err error) {
	verifrt.Yield("OnStepStageFailure")
	h.gate()
	h.verifAtomicNote(vEvent{kind: "fail", stage: stage})
}

// ---------------------------------------------------------------------------

func verifCancelSignal() *schema.SignalSchema {
	return schema.NewSignalSchema("cancel",
		schema.NewScopeSchema(schema.NewObjectSchema("cancelInput", map[string]*schema.PropertySchema{})), nil)
}

func verifNewEnv(hasCancel bool) *vEnv {
	e := &vEnv{hasCancel: hasCancel, resultID: "success", lazy: true}
	e.h = newHandler()
	sdkplugin.CancellationSignalSchema = verifCancelSignal()
	handlers := map[string]*schema.SignalSchema{}
	if hasCancel {
		handlers["cancel"] = verifCancelSignal()
	}
	out := func(id string) *schema.StepOutputSchema {
		return schema.NewStepOutputSchema(schema.NewScopeSchema(schema.NewObjectSchema(id, map[string]*schema.PropertySchema{})), nil, id == "error")
	}
	defer func() { e.verifDeclared() }()
	e.stepSchema = schema.NewStepSchema("wait",
		schema.NewScopeSchema(schema.NewObjectSchema("input", map[string]*schema.PropertySchema{})),
		map[string]*schema.StepOutputSchema{"success": out("success"), "error": out("error")},
		handlers, nil, nil)
	return e
}

type vDeployerRegistry struct{ env *vEnv }

func (r *vDeployerRegistry) List() map[string]schema.Object               { return nil }
func (r *vDeployerRegistry) DeploymentTypes() []deployer.DeploymentType { return []deployer.DeploymentType{"builtin"} }
func (r *vDeployerRegistry) DeployConfigSchema(t deployer.DeploymentType) schema.OneOf[string] {
	return vDeployConfigSchema{schema.NewOneOfStringSchema[any](map[string]schema.Object{}, "deployer_name", false)}
}
func (r *vDeployerRegistry) Create(t deployer.DeploymentType, config any, logger log.Logger) (deployer.Connector, error) {
	return &vConnector{env: r.env, cfg: config}, nil
}

// vDeployConfigSchema accepts every deployment configuration as it is (opaque to the provider).
type vDeployConfigSchema struct{ schema.OneOf[string] }

func (s vDeployConfigSchema) Unserialize(data any) (any, error) { return data, nil }

func (e *vEnv) runnable() *runnableStep {
	return &runnableStep{
		deployerRegistry: &vDeployerRegistry{env: e},
		schemas:        schema.SchemaSchema{StepsValue: map[string]*schema.StepSchema{"wait": e.stepSchema}},
		logger:         vLogger{},
		deploymentType: "builtin",
		source:         "image",
		localDeployer:  &vConnector{env: e},
	}
}

var verifStages = []string{"deploy", "deploy_failed", "enabling", "disabled", "starting", "running", "cancelled", "outputs", "crashed", "closed"}

// ---------------------------------------------------------------------------
// C08: structural conformance of engine-fabricated stage outputs to the schemas the same provider declares

// verifConforms: data is the serialized form (maps with string keys, lists, scalars) of the object schema.
func verifConforms(sc schema.Scope, data any) bool {
	ss, ok := sc.(*schema.ScopeSchema)
	if !ok {
		return true // not a plain scope: outside the walker
	}
	return verifConformsObject(ss.RootObject(), data)
}

func verifConformsObject(o *schema.ObjectSchema, data any) bool {
	var keys []string
	get := func(k string) (any, bool) { return nil, false }
	switch m := data.(type) {
	case map[any]any:
		for k := range m {
			ks, ok := k.(string)
			if !ok {
				return false
			}
			keys = append(keys, ks)
		}
		get = func(k string) (any, bool) { v, ok := m[k]; return v, ok }
	case map[string]any:
		for k := range m {
			keys = append(keys, k)
		}
		get = func(k string) (any, bool) { v, ok := m[k]; return v, ok }
	default:
		return false // engine-generated outputs must be in serialized (map) form to be usable by expressions
	}
	props := o.Properties()
	for _, k := range keys {
		if _, ok := props[k]; !ok {
			return false
		}
	}
	for name, p := range props {
		v, present := get(name)
		if !present {
			if p.RequiredValue {
				return false
			}
			continue
		}
		switch p.TypeID() {
		case schema.TypeIDBool:
			if _, ok := v.(bool); !ok {
				return false
			}
		case schema.TypeIDString:
			if _, ok := v.(string); !ok {
				return false
			}
		case schema.TypeIDInt:
			if _, ok := v.(int64); !ok {
				return false
			}
		}
	}
	return true
}

// verifDeclared builds the declared-output table (and keeps the schemas) from the REAL Lifecycle().
func (e *vEnv) verifDeclared() {
	life, err := e.runnable().Lifecycle(map[string]any{"step": "wait"})
	verifrt.Assert(err == nil, "Lifecycle() succeeds")
	e.h.declared = map[string]map[string]bool{}
	e.h.schemas = map[string]*schema.StepOutputSchema{}
	for _, st := range life.Stages {
		e.h.declared[st.ID] = map[string]bool{}
		for id, os := range st.Outputs {
			e.h.declared[st.ID][id] = true
			e.h.schemas[st.ID+"."+id] = os
		}
	}
}
