//go:build verif

package plugin

// Exported entry points so that the run-loop harness (package workflow) can compose the REAL plugin
// provider with the stub deployer / ATP client of this package.

import (
	"go.flow.arcalot.io/deployer"
	"go.flow.arcalot.io/engine/internal/step"
	"go.flow.arcalot.io/engine/internal/verifrt"
)

// VerifEnv is the scripted environment (stub deployer + stub ATP client) of one real plugin step.
type VerifEnv = vEnv

// VerifNewScriptedEnv: deployment succeeds, the schema is read, the plugin answers at once with the
// given output id and an object {"v": <opaque>}.
func VerifNewScriptedEnv(outputID string) *VerifEnv {
	e := verifNewEnv(true)
	e.lazy = false
	e.resultID = outputID
	e.objectResult = true
	return e
}

// VerifProvider is the real plugin provider with the environment's connector as local deployer.
func VerifProvider(e *VerifEnv) step.Provider {
	return &pluginProvider{logger: vLogger{}, deployerRegistry: &vDeployerRegistry{env: e},
		localDeployers: map[deployer.DeploymentType]deployer.Connector{"builtin": &vConnector{env: e}}}
}

func (e *vEnv) VerifResult() verifrt.Val { return e.lastResult }
func (e *vEnv) VerifExecuted() int        { return e.execEntered }
func (e *vEnv) VerifAllClosed() bool {
	for _, p := range e.plugins {
		if p.closes == 0 {
			return false
		}
	}
	return true
}

// VerifNewLazyEnv: every behaviour of the deployer / plugin is chosen when reached
// (deploy ok|error, schema ok|missing|error, result success|error|crash; the plugin answers at once).
func VerifNewLazyEnv() *VerifEnv {
	e := verifNewEnv(true)
	e.lazy = false // preparation (schema probe) is scripted; the harness switches to lazy before the run
	e.deployModes = 2
	e.immediate = true
	e.objectResult = true
	return e
}

// VerifSucceeded: the plugin was executed and returned its success output.
func (e *vEnv) VerifSucceeded() bool {
	return e.execEntered == 1 && !e.resultErr && e.resultID == "success"
}

// VerifSetLazy switches between scripted (all fine) and lazily chosen behaviours.
func (e *vEnv) VerifSetLazy(on bool) { e.lazy = on }

// VerifFailDeploy: from now on deploying the plugin fails (the schema probe of preparation has passed).
func (e *vEnv) VerifFailDeploy() { e.lazy = false; e.deployMode = 1 }
