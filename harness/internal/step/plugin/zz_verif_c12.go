//go:build verif

package plugin

import (
	"go.flow.arcalot.io/deployer"
	"go.flow.arcalot.io/engine/internal/step"
	"go.flow.arcalot.io/engine/internal/verifrt"
)

// verifAct performs one environment action on the running step.
//
//	0 deploy input   1 enabling input (nil|true|false)   2 starting input   3 stop_if=true
//	4 Close          5 ForceClose
func verifAct(e *vEnv, r step.RunningStep, given map[string]bool, a int) (closed bool) {
	switch a {
	case 0:
		err := r.ProvideStageInput("deploy", map[string]any{"deploy": nil})
		verifrt.Assert((err != nil) == given["deploy"], "deploy input is accepted exactly once")
		given["deploy"] = true
	case 1:
		var en any
		// the run loop hands the stage input over as written (validated, not converted): a literal
		// in the workflow file arrives as text, and the bool schema accepts several spellings of false
		nEn := 4
		if e.boolEnabledOnly {
			nEn = 3
		}
		switch verifrt.Choice("enabled", nEn) {
		case 1:
			en = true
		case 2:
			en = false
		case 3:
			en = "no"
		}
		err := r.ProvideStageInput("enabling", map[string]any{"enabled": en})
		verifrt.Assert((err != nil) == given["enabling"], "enabling input is accepted exactly once")
		if !given["enabling"] {
			e.enabledFalse = en == false || en == "no"
		}
		given["enabling"] = true
	case 2:
		in := map[string]any{"input": any(verifrt.NondetVal("in"))}
		if verifrt.Choice("timeout", 2) == 1 {
			in["closure_wait_timeout"] = int64(0)
		}
		if !given["starting"] && e.stopReturned {
			e.stoppedBeforeStart = true
		}
		err := r.ProvideStageInput("starting", in)
		verifrt.Assert((err != nil) == given["starting"], "starting input is accepted exactly once")
		given["starting"] = true
	case 3:
		err := r.ProvideStageInput("cancelled", map[string]any{"stop_if": true})
		verifrt.Assert(err == nil, "stop_if input is accepted")
		e.stopReturned = true
	case 4:
		err := r.Close()
		verifrt.Assert(err == nil, "Close returns no error")
		e.h.closeReturned = true
		return true
	case 6:
		verifrt.Settle() // let the step run until it cannot make progress
	case 5:
		err := r.ForceClose()
		verifrt.Assert(err == nil, "ForceClose returns no error")
		e.h.closeReturned = true
		return true
	}
	return false
}

// verifEpilogue closes the step (if the scenario has not) and checks the end-of-life obligations.
func verifEpilogue(e *vEnv, r step.RunningStep, closed bool) {
	if !closed {
		verifrt.Reach("closed-at-end")
		err := r.ForceClose()
		verifrt.Assert(err == nil, "ForceClose returns no error")
		e.h.closeReturned = true
	} else {
		verifrt.Reach("closed-early")
	}
	// closing is idempotent
	verifrt.Assert(r.Close() == nil, "second close returns no error")
	verifrt.Assert(r.ForceClose() == nil, "force close after close returns no error")
	verifrt.Settle()
	verifrt.Assert(!e.h.lateNotify, "no notification after Close/ForceClose returned")
	verifrt.Assert(e.h.completes == 1, "exactly one completion was reported by the time the step is closed")
	verifrt.Assert(r.State() == step.RunningStepStateFinished, "the step shows as finished after completion")
	verifrt.Assert(verifrt.LiveGoroutines() == 0, "no goroutine of the step survives Close")
	for _, p := range e.plugins {
		verifrt.Assert(p.closes >= 1, "every deployed plugin was closed")
	}
	verifrt.Assert(e.execLive == 0, "no plugin execution is still in flight")
	if e.execEntered > 0 {
		verifrt.Reach("executed")
		verifrt.Assert(!e.enabledFalse, "plugin code is executed only if the enabled condition was true or absent")
		verifrt.Assert(!e.stoppedBeforeStart, "a step whose stop condition fired before it started never executes")
	}
	if e.enabledFalse && e.h.finished["enabling"] {
		verifrt.Assert(e.h.finished["disabled"] || e.h.finished["closed"], "a disabled step reports its disabled output (unless closed first)")
	}
	for _, st := range []string{"outputs", "disabled", "deploy_failed", "crashed", "closed"} {
		if e.h.finished[st] {
			verifrt.Reach(st)
		}
	}
	// completeness: the run loop resolves what depends on a stage only when the stage is reported
	// finished or declared impossible; a stage left undeclared keeps its dependants (and with them the
	// run) waiting for unrelated steps (C01, second sentence)
	if e.h.completes == 1 {
		for _, st := range verifStageOrder {
			if len(e.h.declared[st]) > 0 { // a stage without outputs has no dependants
				verifrt.Assert(e.h.finished[st] || e.h.failed[st], "by the time the step has ended every stage is reported finished or declared impossible: "+st)
			}
		}
	}
}

var verifStageOrder = []string{"deploy", "deploy_failed", "enabling", "disabled", "starting", "running", "cancelled", "outputs", "crashed", "closed"}

func verifStart(e *vEnv) step.RunningStep {
	// the runnable step comes from the real LoadSchema (scripted schema probe: deploys, reads the schema,
	// closes), not from a hand-made struct; afterwards the environment behaves as the scenario configured it
	lazy, dm, sm, slow := e.lazy, e.deployMode, e.schemaMode, e.slowClose
	e.lazy, e.deployMode, e.schemaMode, e.slowClose = false, 0, 0, false
	rn, err := VerifProvider(e).LoadSchema(map[string]any{"plugin": map[string]any{"src": "image", "deployment_type": "builtin"}}, nil)
	e.lazy, e.deployMode, e.schemaMode, e.slowClose = lazy, dm, sm, slow
	verifrt.Assert(err == nil, "LoadSchema succeeds")
	r, err := rn.Start(map[string]any{"step": "wait"}, "s1", e.h)
	verifrt.Assert(err == nil, "Start succeeds")
	return r
}

// Scenario A: inputs arrive in lifecycle order; the step is left to finish (or to wait) and is closed at the end.
func VerifH_C12_plugin_ordered() {
	e := verifNewEnv(verifrt.Choice("hasCancel", 2) == 1)
	r := verifStart(e)
	given := map[string]bool{}
	n := verifrt.Choice("inputs", 4) // how many of deploy, enabling, starting are provided
	for a := 0; a < n; a++ {
		verifAct(e, r, given, a)
	}
	if verifrt.Choice("stop", 2) == 1 {
		verifAct(e, r, given, 3)
	}
	if verifrt.Choice("settle", 2) == 1 {
		verifrt.Settle()
	}
	verifEpilogue(e, r, false)
}

// Scenario B: Close or ForceClose requested at any position of the ordered input sequence.
func VerifH_C12_plugin_close_anytime() {
	e := verifNewEnv(verifrt.Choice("hasCancel", 2) == 1)
	e.deployModes = 4 // including a deployment that completes only after the close request
	r := verifStart(e)
	given := map[string]bool{}
	at := verifrt.Choice("closeAt", 4)
	for a := 0; a < at; a++ {
		verifAct(e, r, given, a)
	}
	closed := verifAct(e, r, given, 4+verifrt.Choice("how", 2))
	verifEpilogue(e, r, closed)
}

// Scenario C: K provide-actions in arbitrary order, duplicates included.
func VerifH_C12_plugin_any_order() {
	e := verifNewEnv(true)
	e.boolEnabledOnly = true // the textual spellings are covered by scenarios A and B
	r := verifStart(e)
	given := map[string]bool{}
	K := verifrt.Param("K", 3)
	acts := []int{0, 1, 2, 3, 6}
	for i := 0; i < K; i++ {
		verifAct(e, r, given, acts[verifrt.Choice("action", len(acts))])
	}
	// the step is left to do whatever the inputs it got allow (closing in mid-flight is scenario B's subject)
	verifrt.Settle()
	verifEpilogue(e, r, false)
}

// Scenario D: the close request arrives while the step is inside one of its notifications (the handler
// is slow, e.g. because the run lock is held): whichever notification it is, closing returns only once
// the step has said everything it has to say.
func VerifH_C12_plugin_close_during_notification() {
	e := verifNewEnv(verifrt.Choice("hasCancel", 2) == 1)
	e.immediate = true
	e.h.holdAt = verifrt.Choice("holdAt", verifrt.Param("N", 12))
	e.h.hold = make(chan struct{})
	r := verifStart(e)
	given := map[string]bool{}
	n := 1 + verifrt.Choice("inputs", 3)
	for a := 0; a < n; a++ {
		verifAct(e, r, given, a)
	}
	if verifrt.Choice("stop", 2) == 1 {
		verifAct(e, r, given, 3)
	}
	verifrt.Settle()
	returned := 0
	closer := func() {
		how := verifrt.Choice("how", 2)
		verifrt.Go(func() {
			var err error
			if how == 0 {
				err = r.Close()
			} else {
				err = r.ForceClose()
			}
			verifrt.Assert(err == nil, "closing returns no error")
			verifAtomicCloseReturned(e.h, &returned)
		})
	}
	want := 1
	if !e.h.held {
		// not reached yet: the first close request makes the step say the rest; a notification of
		// that closing sequence may be the one that is held
		closer()
		verifrt.Settle()
		if !e.h.held {
			verifrt.Assert(returned == 1, "a close request returns once the step has ended")
			verifEpilogue(e, r, true)
			return
		}
		verifrt.Reach("held-while-closing")
		want = 2
	}
	verifrt.Reach("held")
	closer() // a (further) close request while the step is inside a notification
	verifrt.Settle()
	close(e.h.hold)
	verifrt.Settle()
	verifrt.Assert(returned == want, "a close request made during a notification returns once the step has ended")
	verifEpilogue(e, r, true)
}

func verifAtomicCloseReturned(h *vHandler, n *int) {
	h.closeReturned = true
	*n = *n + 1
}

// Scenario E: the inputs arrive in lifecycle order and the stop condition fires at any position of that
// sequence, with the step either still where the previous input left it or as far as it can get
// (a stop that lands in the deploy, enabling, starting or running stage); then the step is left alone.
func VerifH_C04_stop_anywhere() {
	e := verifNewEnv(true)
	r := verifStart(e)
	given := map[string]bool{}
	at := verifrt.Choice("stopAt", 4)
	for a := 0; a <= 3; a++ {
		if a == at {
			if verifrt.Choice("step-runs-first", 2) == 1 {
				verifrt.Settle()
			}
			verifAct(e, r, given, 3)
		}
		if a < 3 {
			verifAct(e, r, given, a)
		}
	}
	verifrt.Settle()
	verifEpilogue(e, r, false)
}

// C05: the temporary deployment made to read a plugin's schema is closed on every return path.
func VerifH_C05_load_schema() {
	e := verifNewEnv(true)
	e.deployModes = 2 // ok / error (a deployer that blocks for ever is outside LoadSchema's contract)
	e.closeFaults = true
	p := &pluginProvider{logger: vLogger{}, localDeployers: map[deployer.DeploymentType]deployer.Connector{"builtin": &vConnector{env: e}}}
	rs, err := p.LoadSchema(map[string]any{"plugin": map[string]any{"src": "image", "deployment_type": "builtin"}}, nil)
	verifrt.Assert((rs == nil) != (err == nil), "LoadSchema returns a runnable step or an error")
	if e.deployments > 0 {
		verifrt.Reach("deployed")
	}
	if err != nil {
		verifrt.Reach("error")
	}
	for _, pl := range e.plugins {
		verifrt.Assert(pl.closes >= 1, "the deployment made to read the schema is closed on every return path")
	}
	verifrt.Settle()
	verifrt.Assert(verifrt.LiveGoroutines() == 0, "no goroutine survives LoadSchema")
}

// C06 (provider side): closing a running step ends within its closure timeout, and every plugin
// still executing is sent the cancel signal or has its connection closed.
func VerifH_C06_close_running() {
	e := verifNewEnv(verifrt.Choice("hasCancel", 2) == 1)
	e.lazy = false
	e.execMode = 1 // keeps running until signalled or closed
	if verifrt.Choice("plugin-reacts", 2) == 0 {
		e.ignoreSignal = true
	}
	r := verifStart(e)
	given := map[string]bool{}
	verifAct(e, r, given, 0)
	verifAct(e, r, given, 1)
	timeout := int64(5000)
	in := map[string]any{"input": any(verifrt.NondetVal("in"))}
	if verifrt.Choice("timeout", 2) == 1 {
		in["closure_wait_timeout"] = int64(0)
		timeout = 0
	}
	verifrt.Assert(r.ProvideStageInput("starting", in) == nil, "starting input accepted")
	verifrt.Settle()
	if e.execLive == 1 {
		verifrt.Reach("executing")
	}
	wasLive := e.execLive
	t0 := verifrt.Now()
	how := verifrt.Choice("how", 3)
	switch how {
	case 0:
		verifrt.Assert(r.ForceClose() == nil, "ForceClose returns no error")
	case 1:
		verifrt.Assert(r.Close() == nil, "Close returns no error")
	case 2:
		verifrt.Assert(r.ProvideStageInput("cancelled", map[string]any{"stop_if": true}) == nil, "stop_if accepted")
		verifrt.AwaitQuiescence()
	}
	dt := (verifrt.Now() - t0) / 1000000
	verifrt.Assert(dt <= timeout, "a running step stops within its closure timeout after cancellation")
	verifrt.Assert(e.execLive == 0, "no plugin execution is left running after cancellation")
	if wasLive == 1 {
		verifrt.Assert(e.signalled == 1 || e.plugins[0].closes >= 1, "a plugin that was executing got the cancel signal or had its connection closed")
		if e.hasCancel && how != 0 {
			verifrt.Reach("signalled")
		}
	}
	e.h.closeReturned = how != 2
	verifEpilogue(e, r, how != 2)
}

// C08: every stage output the plugin provider fabricates itself conforms to the schema its own
// Lifecycle() declares (same scenarios as C12's ordered scenario).
func VerifH_C08_plugin_outputs_conform() {
	e := verifNewEnv(verifrt.Choice("hasCancel", 2) == 1)
	e.h.checkShape = true
	r := verifStart(e)
	given := map[string]bool{}
	n := verifrt.Choice("inputs", 4)
	for a := 0; a < n; a++ {
		verifAct(e, r, given, a)
	}
	if verifrt.Choice("stop", 2) == 1 {
		verifAct(e, r, given, 3)
	}
	if verifrt.Choice("settle", 2) == 1 {
		verifrt.Settle()
	}
	verifEpilogue(e, r, false)
}

// C09: the deadlock detector of the run loop counts steps by State(). A step that has been GIVEN the
// input it was waiting for must not keep showing as waiting_for_input, otherwise a step goroutine that
// is merely slow (delayed > 30 ms between two of its actions) makes the detector abort a healthy run.
// The harness provides each stage input at every point of the step's progress and reads State() as
// the detector would, before the step's goroutine is given a chance to run.
func VerifH_C09_no_waiting_window() {
	e := verifNewEnv(true)
	e.lazy = false
	e.execMode = 1
	r := verifStart(e)
	given := map[string]bool{}
	stages := []string{"deploy", "enabling", "starting"}
	upto := verifrt.Choice("stage", 3)
	for a := 0; a <= upto; a++ {
		if verifrt.Choice("let-step-run-first", 2) == 1 {
			verifrt.Settle() // the step reaches its wait for this input before the input arrives
		}
		verifAct(e, r, given, a)
		if a == upto {
			rs := r.(*runningStep)
			rs.lock.Lock()
			st, cs := rs.state, string(rs.currentStage)
			rs.lock.Unlock()
			verifrt.Reach("checked-" + stages[a])
			verifrt.Assert(!(st == step.RunningStepStateWaitingForInput && cs == stages[a]), "a step that was given its "+stages[a]+" input no longer shows as waiting for input in that stage")
		}
	}
	// ... and not later either (the step's goroutine may have been between looking for the input and
	// publishing its state when the input arrived): let it go as far as it can and read the state again
	verifrt.Settle()
	{
		rs := r.(*runningStep)
		rs.lock.Lock()
		st, cs := rs.state, string(rs.currentStage)
		rs.lock.Unlock()
		verifrt.Assert(!(st == step.RunningStepStateWaitingForInput && cs == stages[upto]), "a step that was given its "+stages[upto]+" input does not show as waiting for input in that stage once it has picked the input up")
	}
	verifEpilogue(e, r, false)
}

// C17: while the step runs, another goroutine observes it the way the run loop's detector does
// (State, CurrentStage) and a third one delivers the stop condition; the caller closes the step.
func VerifH_C17_plugin_observed() {
	e := verifNewEnv(true)
	r := verifStart(e)
	given := map[string]bool{}
	n := verifrt.Choice("inputs", 4)
	for a := 0; a < n; a++ {
		verifAct(e, r, given, a)
	}
	obs := make(chan struct{})
	go func() {
		_ = r.State()
		_ = r.CurrentStage()
		close(obs)
	}()
	stop := make(chan struct{})
	go func() {
		_ = r.ProvideStageInput("cancelled", map[string]any{"stop_if": true})
		close(stop)
	}()
	if verifrt.Choice("settle", 2) == 1 {
		verifrt.Settle()
	}
	err := r.ForceClose()
	verifrt.Assert(err == nil, "ForceClose returns no error")
	<-obs
	<-stop
	verifrt.Settle()
	verifrt.Assert(verifrt.LiveGoroutines() == 0, "no goroutine of the step survives Close")
}

// C05: when the caller's ForceClose / Close returns, the plugin is closed and the step's goroutines
// are gone - also when stopping the container is slow and the step has already begun to close itself
// (stop condition on a running step without cancel handler, or with an expired closure timeout).
func VerifH_C05_slow_container_stop() {
	e := verifNewEnv(verifrt.Choice("hasCancel", 2) == 1)
	e.lazy = false
	e.execMode = 1
	e.ignoreSignal = true
	e.slowClose = true
	r := verifStart(e)
	given := map[string]bool{}
	verifAct(e, r, given, 0)
	verifAct(e, r, given, 1)
	verifrt.Assert(r.ProvideStageInput("starting", map[string]any{"input": any(verifrt.NondetVal("in")), "closure_wait_timeout": int64(0)}) == nil, "starting input accepted")
	verifrt.Settle()
	if verifrt.Choice("stop-first", 2) == 1 {
		verifrt.Reach("stopped-first")
		verifrt.Assert(r.ProvideStageInput("cancelled", map[string]any{"stop_if": true}) == nil, "stop_if accepted")
		verifrt.Settle() // the step starts closing itself and is now waiting for the container to stop
	}
	var err error
	if verifrt.Choice("how", 2) == 0 {
		err = r.ForceClose()
	} else {
		err = r.Close()
	}
	verifrt.Assert(err == nil, "closing returns no error")
	// at this very moment (no settling): nothing may be left
	for _, p := range e.plugins {
		verifrt.Assert(p.closes >= 1, "every deployed plugin is closed by the time the close request returns")
	}
	verifrt.Assert(verifrt.LiveGoroutines() == 0, "no goroutine of the step is alive by the time the close request returns")
	verifrt.Assert(e.execLive == 0, "no plugin execution is in flight by the time the close request returns")
}

// C14 (provider side): the runs of one prepared plugin step share nothing that depends on a run. Two
// running steps are started from the same runnable step (as two runs of a prepared workflow, or two items of
// a loop, do), sequentially or overlapping, each with its own deployment configuration: each is deployed
// through a connector created from its own configuration and reports its own life story.
func VerifH_C14_plugin_runs_share_nothing() {
	e := verifNewEnv(true)
	e.lazy = false
	rn, err := VerifProvider(e).LoadSchema(map[string]any{"plugin": map[string]any{"src": "image", "deployment_type": "builtin"}}, nil)
	verifrt.Assert(err == nil, "LoadSchema succeeds")
	before := len(e.deployCfgs) // the schema probe
	cfg := []any{any(verifrt.NondetVal("cfg1")), any(verifrt.NondetVal("cfg2"))}
	hs := []*vHandler{newHandler(), newHandler()}
	var rs []step.RunningStep
	overlap := verifrt.Choice("overlap", 2) == 1
	for k := 0; k < 2; k++ {
		r, err := rn.Start(map[string]any{"step": "wait"}, "run", hs[k])
		verifrt.Assert(err == nil, "Start succeeds")
		rs = append(rs, r)
		verifrt.Assert(r.ProvideStageInput("deploy", map[string]any{"deploy": cfg[k]}) == nil, "deploy input accepted")
		if !overlap {
			verifrt.Settle()
		}
	}
	verifrt.Settle()
	got := e.deployCfgs[before:]
	verifrt.Assert(len(got) == 2, "each run deploys once")
	if len(got) == 2 {
		if !overlap {
			verifrt.Assert(got[0] == cfg[0] && got[1] == cfg[1], "each run is deployed with its own deployment configuration")
		} else {
			verifrt.Reach("overlapping")
			verifrt.Assert((got[0] == cfg[0] && got[1] == cfg[1]) || (got[0] == cfg[1] && got[1] == cfg[0]), "each run is deployed with its own deployment configuration")
		}
	}
	for k := range rs {
		verifrt.Assert(rs[k].ForceClose() == nil, "ForceClose returns no error")
	}
	verifrt.Settle()
	for k := range hs {
		verifrt.Assert(hs[k].completes == 1, "each run reports exactly one completion")
	}
	verifrt.Assert(verifrt.LiveGoroutines() == 0, "no goroutine of either run survives")
}
