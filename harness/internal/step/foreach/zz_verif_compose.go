//go:build verif

package foreach

// Composition: REAL loop steps (this package's provider, with the stub sub-workflow) side by side inside
// the REAL run loop (package workflow). The run loop calls back into the steps (State() of every step,
// under the run lock) while the steps notify the run loop (taking the run lock): C01 demands that no
// order of those events blocks the run for ever.

import (
	"go.flow.arcalot.io/expressions"
	"go.flow.arcalot.io/engine/internal/infer"
	"go.flow.arcalot.io/engine/internal/step"
	"go.flow.arcalot.io/engine/internal/verifrt"
	"go.flow.arcalot.io/engine/workflow"
)

func verifLoopStep(id string) (*vSub, workflow.VerifStep) {
	sub := &vSub{gate: make(chan struct{})}
	close(sub.gate) // items answer at once
	var rn step.RunnableStep = &runnableStep{workflow: sub, logger: vLogger{}}
	return sub, workflow.VerifStep{ID: id, Provider: &forEachProvider{logger: vLogger{}}, Runnable: rn,
		Fields: map[string]any{"items": workflow.VerifExpr("input")}}
}

func verifAllSucceeded(s *vSub) bool {
	for _, c := range s.calls {
		if c.kind != 0 {
			return false
		}
	}
	return len(s.calls) > 0
}

// C01 / composition: two independent real loop steps feed the only output. Whatever the items' outcomes
// and the order of the two steps' events, the run returns - with the output exactly when every item of
// both loops succeeded - and leaves nothing running.
func VerifH_C01_real_foreach_siblings() {
	s1, l1 := verifLoopStep("l1")
	s2, l2 := verifLoopStep("l2")
	p := workflow.VerifPrepareSteps([]workflow.VerifStep{l1, l2}, map[string]any{
		"success": map[any]any{
			"a": workflow.VerifExpr("steps", "l1", "outputs", "success", "data"),
			"b": workflow.VerifExpr("steps", "l2", "outputs", "success", "data"),
		},
	})
	items := []any{verifrt.NondetVal("item")}
	res := workflow.VerifRun(p, any(items))
	verifrt.Assert(!res.Stuck, "the run returns once all steps have finished or failed")
	verifrt.Assert((res.Err == nil) != (res.ID == ""), "Execute returns either an output or an error, never both or neither")
	if verifAllSucceeded(s1) && verifAllSucceeded(s2) {
		verifrt.Reach("output")
		verifrt.Assert(res.Err == nil && res.ID == "success", "every item of both loops succeeded: the output is returned")
	} else {
		verifrt.Reach("error")
		verifrt.Assert(res.Err != nil, "a loop did not produce its success output: the run returns an error")
	}
	verifrt.Settle()
	verifrt.Assert(s1.live == 0 && s2.live == 0, "no item run is still in flight after the run returned")
	verifrt.Assert(verifrt.LiveGoroutines() == 0, "no goroutine survives the run")
}

// C09 / composition: one REAL loop step whose items all succeed, inside the real run loop; one goroutine
// may be slow at any one point for as long as it takes everything else (the detector's retries included)
// to come to rest. The run still returns the success output.
func VerifH_C09_real_foreach() {
	sub := &vSub{gate: make(chan struct{}), outcome: []int{0}}
	close(sub.gate)
	var rn step.RunnableStep = &runnableStep{workflow: sub, logger: vLogger{}}
	p := workflow.VerifPrepareSteps([]workflow.VerifStep{{ID: "l1", Provider: &forEachProvider{logger: vLogger{}}, Runnable: rn, Fields: map[string]any{"items": workflow.VerifExpr("input")}}},
		map[string]any{"success": map[any]any{"a": workflow.VerifExpr("steps", "l1", "outputs", "success", "data")}})
	res := workflow.VerifRun(p, any([]any{verifrt.NondetVal("item")}))
	verifrt.Assert(!res.Stuck, "the run returns")
	verifrt.Assert(res.Err == nil && res.ID == "success", "a healthy loop returns its success output however slow one goroutine is")
	if res.Err == nil {
		verifrt.Reach("output")
	}
	verifrt.Settle()
	verifrt.Assert(verifrt.LiveGoroutines() == 0, "no goroutine survives the run")
}


// C09 / composition: as VerifH_C09_real_foreach, with a wait-optional value from the loop's other branch
// (failed.error) in the output: once every item has succeeded the result is fixed, however slow the loop
// step's goroutine is between two of its notifications.
func VerifH_C09_real_foreach_optional_other_branch() {
	sub := &vSub{gate: make(chan struct{}), outcome: []int{0}}
	close(sub.gate)
	var rn step.RunnableStep = &runnableStep{workflow: sub, logger: vLogger{}}
	p := workflow.VerifPrepareSteps([]workflow.VerifStep{{ID: "l1", Provider: &forEachProvider{logger: vLogger{}}, Runnable: rn, Fields: map[string]any{"items": workflow.VerifExpr("input")}}},
		map[string]any{"success": map[any]any{
			"a": workflow.VerifExpr("steps", "l1", "outputs", "success", "data"),
			"e": &infer.OptionalExpression{Expr: workflow.VerifExpr("steps", "l1", "failed", "error").(expressions.Expression), WaitForCompletion: true},
		}})
	res := workflow.VerifRun(p, any([]any{verifrt.NondetVal("item")}))
	verifrt.Assert(!res.Stuck, "the run returns")
	verifrt.Assert(res.Err == nil && res.ID == "success", "the result is fixed once every item succeeded: it is returned however slow the loop's goroutine is between two notifications")
	if res.Err == nil {
		verifrt.Reach("output")
	}
	verifrt.Settle()
	verifrt.Assert(verifrt.LiveGoroutines() == 0, "no goroutine survives the run")
}
