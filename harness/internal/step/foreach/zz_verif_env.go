//go:build verif

package foreach

import (
	"context"
	"sync"

	"go.arcalot.io/dgraph"
	"go.arcalot.io/log/v2"
	"go.flow.arcalot.io/engine/internal/step"
	"go.flow.arcalot.io/engine/internal/verifrt"
	"go.flow.arcalot.io/engine/workflow"
	"go.flow.arcalot.io/pluginsdk/schema"
)

type vLogger struct{}

func (vLogger) Debugf(format string, args ...interface{})                 {}
func (vLogger) Infof(format string, args ...interface{})                  {}
func (vLogger) Warningf(format string, args ...interface{})               {}
func (vLogger) Errorf(format string, args ...interface{})                 {}
func (vLogger) Writef(level log.Level, format string, args ...interface{}) {}
func (vLogger) WithLabel(name string, value string) log.Logger            { return vLogger{} }

type vScope struct{ schema.Scope }

func (s *vScope) Unserialize(data any) (any, error) { return data, nil }

// vSub is the stub prepared sub-workflow.
type vSub struct {
	gate    chan struct{}
	live    int
	max     int
	calls   []vCall
	outcome []int // per item: 0 success, 1 other output, 2 error; -1 choose
}

type vCall struct {
	item any
	out  verifrt.Val
	kind int
}

func (s *vSub) Input() schema.Scope {
	// everything but Unserialize is the real (empty) scope: Prepare inspects the type of the loop's items
	return &vScope{Scope: schema.NewScopeSchema(schema.NewObjectSchema("item", map[string]*schema.PropertySchema{}))}
}
func (s *vSub) DAG() dgraph.DirectedGraph[*workflow.DAGItem]           { return nil }
func (s *vSub) OutputSchema() map[string]*schema.StepOutputSchema {
	// the sub-workflow declares a second output that is not flagged as an error (e.g. "skipped")
	return map[string]*schema.StepOutputSchema{
		"success": schema.NewStepOutputSchema(schema.NewScopeSchema(schema.NewObjectSchema("item", map[string]*schema.PropertySchema{})), nil, false),
		"other":   schema.NewStepOutputSchema(schema.NewScopeSchema(schema.NewObjectSchema("other", map[string]*schema.PropertySchema{})), nil, false),
	}
}
func (s *vSub) Namespaces() map[string]map[string]*schema.ObjectSchema { return nil }

func verifAtomicEnter(s *vSub, item any) int {
	s.live++
	if s.live > s.max {
		s.max = s.live
	}
	s.calls = append(s.calls, vCall{item: item})
	return len(s.calls) - 1
}

func verifAtomicLeave(s *vSub, k int, kind int, out verifrt.Val) {
	s.live--
	s.calls[k].kind = kind
	s.calls[k].out = out
}

func (s *vSub) Execute(ctx context.Context, input any) (string, any, error) {
	k := verifAtomicEnter(s, input)
	select {
	case <-s.gate:
	case <-ctx.Done():
	}
	kind := 0
	if len(s.outcome) > 0 && s.outcome[k%len(s.outcome)] >= 0 {
		kind = s.outcome[k%len(s.outcome)] // scripted
	} else {
		kind = verifrt.Choice("item-outcome", 3)
	}
	out := verifrt.NondetVal("item-out")
	verifAtomicLeave(s, k, kind, out)
	switch kind {
	case 1:
		return "other", any(out), nil
	case 2:
		return "", nil, &verifrt.Err{Msg: "item failed"}
	}
	return "success", any(out), nil
}

func verifPropertyUnserialize(p *schema.PropertySchema, data any) (any, error) { return data, nil }

// recording handler (same monitor as for the plugin provider)
type vEvent struct {
	kind   string
	prev   string
	out    string
	stage  string
	data   any
	hasOut bool
}

type vHandler struct {
	events        []vEvent
	finished      map[string]bool
	failed        map[string]bool
	completes     int
	closeReturned bool
	lateNotify    bool
	schemas       map[string]*schema.StepOutputSchema
}

func newHandler() *vHandler { return &vHandler{finished: map[string]bool{}, failed: map[string]bool{}} }

var verifDeclared = map[string]map[string]bool{
	"enabling": {"resolved": true}, "disabled": {"output": true}, "outputs": {"success": true}, "failed": {"error": true}, "closed": {"result": true},
}

func (h *vHandler) verifAtomicNote(ev vEvent) {
	if h.closeReturned {
		h.lateNotify = true
	}
	h.events = append(h.events, ev)
	switch ev.kind {
	case "change", "complete":
		if ev.prev != "" {
			verifrt.Assert(!h.finished[ev.prev], "a stage is reported finished at most once")
			verifrt.Assert(!h.failed[ev.prev], "a stage is never reported both impossible and finished")
			h.finished[ev.prev] = true
			if len(verifDeclared[ev.prev]) > 0 {
				verifrt.Assert(ev.hasOut, "a stage that declares outputs finishes with one of them: "+ev.prev)
			}
			if ev.hasOut {
				verifrt.Assert(verifDeclared[ev.prev][ev.out], "every reported stage output is declared by the lifecycle")
				if h.schemas != nil {
					os := h.schemas[ev.prev+"."+ev.out]
					verifrt.Assert(os != nil, "the real Lifecycle() declares the reported output")
					if os != nil {
						verifrt.Assert(verifConforms(os.Schema(), ev.data), "engine-generated stage output "+ev.prev+"."+ev.out+" conforms to the schema the provider declares for it")
					}
				}
			}
		}
		if ev.kind == "complete" {
			h.completes++
			verifrt.Assert(h.completes == 1, "exactly one completion is reported")
			// once a step shows as finished it owes the workflow nothing: the run loop counts it as idle
			for st, outs := range verifDeclared {
				if len(outs) > 0 {
					verifrt.Assert(h.finished[st] || h.failed[st], "when the completion is reported every other stage with outputs is already finished or declared impossible: "+st)
				}
			}
		} else {
			verifrt.Assert(h.completes == 0, "no stage change after the completion")
		}
	case "fail":
		verifrt.Assert(!h.finished[ev.stage], "a finished stage is never declared impossible afterwards")
		h.failed[ev.stage] = true
	}
}

func deref(p *string) (string, bool) {
	if p == nil {
		return "", false
	}
	return *p, true
}

func (h *vHandler) OnStageChange(s step.RunningStep, prev *string, outID *string, out *any, stage string, inputAvailable bool, wg *sync.WaitGroup) {
	verifrt.Yield("OnStageChange")
	p, _ := deref(prev)
	o, has := deref(outID)
	var d any
	if out != nil {
		d = *out
	}
	h.verifAtomicNote(vEvent{kind: "change", prev: p, out: o, hasOut: has, stage: stage, data: d})
}

func (h *vHandler) OnStepComplete(s step.RunningStep, prev string, outID *string, out *any, wg *sync.WaitGroup) {
	verifrt.Yield("OnStepComplete")
	o, has := deref(outID)
	var d any
	if out != nil {
		d = *out
	}
	h.verifAtomicNote(vEvent{kind: "complete", prev: prev, out: o, hasOut: has, data: d})
}

func (h *vHandler) OnStepStageFailure(s step.RunningStep, stage string, wg *sync.WaitGroup, err error) {
	verifrt.Yield("OnStepStageFailure")
	h.verifAtomicNote(vEvent{kind: "fail", stage: stage})
}

func (h *vHandler) completion() *vEvent {
	for i := range h.events {
		if h.events[i].kind == "complete" {
			return &h.events[i]
		}
	}
	return nil
}

// verifConforms: data is the serialized form (maps with string keys, lists, scalars) of the object schema.
func verifConforms(sc schema.Scope, data any) bool {
	ss, ok := sc.(*schema.ScopeSchema)
	if !ok {
		return true // not a plain scope: outside the walker
	}
	return verifConformsObject(ss.RootObject(), data)
}

func verifConformsObject(o *schema.ObjectSchema, data any) bool {
	var keys []string
	get := func(k string) (any, bool) { return nil, false }
	switch m := data.(type) {
	case map[any]any:
		for k := range m {
			ks, ok := k.(string)
			if !ok {
				return false
			}
			keys = append(keys, ks)
		}
		get = func(k string) (any, bool) { v, ok := m[k]; return v, ok }
	case map[string]any:
		for k := range m {
			keys = append(keys, k)
		}
		get = func(k string) (any, bool) { v, ok := m[k]; return v, ok }
	default:
		return false // engine-generated outputs must be in serialized (map) form to be usable by expressions
	}
	props := o.Properties()
	for _, k := range keys {
		if _, ok := props[k]; !ok {
			return false
		}
	}
	for name, p := range props {
		v, present := get(name)
		if !present {
			if p.RequiredValue {
				return false
			}
			continue
		}
		switch p.TypeID() {
		case schema.TypeIDBool:
			if _, ok := v.(bool); !ok {
				return false
			}
		case schema.TypeIDString:
			if _, ok := v.(string); !ok {
				return false
			}
		case schema.TypeIDInt:
			if _, ok := v.(int64); !ok {
				return false
			}
		case schema.TypeIDMap:
			// the serialized form of a map with integer keys has int64 keys (that is what the expression
			// language indexes with); with string keys, strings
			if ms, ok := p.Type().(interface{ Keys() schema.Type }); ok {
				switch ms.Keys().TypeID() {
				case schema.TypeIDInt:
					switch v.(type) {
					case map[int64]any, map[int64]string, map[any]any:
					default:
						return false
					}
				case schema.TypeIDString:
					switch v.(type) {
					case map[string]any, map[string]string, map[any]any:
					default:
						return false
					}
				}
			}
		}
	}
	return true
}


func verifSchemas(sub *vSub) map[string]*schema.StepOutputSchema {
	life, err := (&runnableStep{workflow: sub, logger: vLogger{}}).Lifecycle(nil)
	verifrt.Assert(err == nil, "Lifecycle() succeeds")
	res := map[string]*schema.StepOutputSchema{}
	for _, st := range life.Stages {
		for id, os := range st.Outputs {
			res[st.ID+"."+id] = os
		}
	}
	return res
}
