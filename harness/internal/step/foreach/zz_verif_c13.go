//go:build verif

package foreach

import (
	"go.flow.arcalot.io/engine/internal/step"
	"go.flow.arcalot.io/engine/internal/verifrt"
)

func verifEpilogue(h *vHandler, r step.RunningStep, sub *vSub) {
	err := r.Close()
	verifrt.Assert(err == nil, "Close returns no error")
	h.closeReturned = true
	verifrt.Assert(r.ForceClose() == nil, "closing is idempotent")
	verifrt.Settle()
	verifrt.Assert(!h.lateNotify, "no notification after Close returned")
	verifrt.Assert(h.completes == 1, "exactly one completion was reported by the time the step is closed")
	verifrt.Assert(r.State() == step.RunningStepStateFinished, "the step shows as finished after completion")
	verifrt.Assert(verifrt.LiveGoroutines() == 0, "no goroutine of the loop step survives Close")
	verifrt.Assert(sub.live == 0, "no item run is still in flight after Close")
	// completeness (see the plugin provider's harness): nothing that depends on a stage of an ended step
	// is left pending
	if h.completes == 1 {
		for _, st := range []string{"enabling", "disabled", "outputs", "failed", "closed"} {
			verifrt.Assert(h.finished[st] || h.failed[st], "by the time the loop step has ended every stage is reported finished or declared impossible: "+st)
		}
	}
}

// C13: per-item results in item order, within the parallelism bound.
func VerifH_C13_foreach_items() {
	n := verifrt.Choice("n", verifrt.Param("maxN", 3)+1)
	sub := &vSub{gate: make(chan struct{})}
	h := newHandler()
	h.schemas = verifSchemas(sub)
	r, err := (&runnableStep{workflow: sub, logger: vLogger{}}).Start(nil, "loop", h)
	verifrt.Assert(err == nil, "Start succeeds")
	items := make([]any, n)
	for i := range items {
		items[i] = verifrt.NondetVal("item")
	}
	in := map[string]any{"items": items}
	p := 1
	if k := verifrt.Choice("parallelism", 4); k > 0 {
		p = k
		in["parallelism"] = int64(k)
	}
	verifrt.Assert(r.ProvideStageInput("enabling", map[string]any{"enabled": nil}) == nil, "enabling input accepted")
	verifrt.Assert(r.ProvideStageInput("execute", in) == nil, "execute input accepted")
	verifrt.AwaitQuiescence()
	// the item runs that were started wait at the gate (how many the step starts at once below the
	// limit is not prescribed by the property)
	verifrt.Assert(sub.live <= p, "never more than 'parallelism' item runs at a time")
	if n > 0 {
		verifrt.Assert(sub.live >= 1, "the loop step starts working on its items")
	}
	close(sub.gate)
	verifrt.AwaitQuiescence()
	verifrt.Assert(sub.max <= p, "never more than 'parallelism' item runs at a time (whole run)")
	verifrt.Assert(len(sub.calls) == n, "the sub-workflow runs exactly once per item")
	// each item was passed as input exactly once
	for i := range items {
		cnt := 0
		for _, c := range sub.calls {
			if c.item == items[i] {
				cnt++
			}
		}
		verifrt.Assert(cnt >= 1, "every item is the input of some item run")
	}
	c := h.completion()
	verifrt.Assert(c != nil, "the loop step completes once all items are done")
	if c == nil {
		return
	}
	// index of the call that processed item i (items are distinct symbols; match by identity of position)
	failing := map[int]bool{}
	outOf := map[int]verifrt.Val{}
	for i := range items {
		for _, cl := range sub.calls {
			if verifrt.Same(cl.item, items[i]) {
				outOf[i] = cl.out
				if cl.kind != 0 {
					failing[i] = true
				}
			}
		}
	}
	if len(failing) == 0 {
		verifrt.Reach("all-success")
		verifrt.Assert(c.prev == "outputs" && c.out == "success", "all items succeeded: the step reports outputs.success")
		m, ok := c.data.(map[string]any)
		verifrt.Assert(ok, "success output is an object")
		lst, ok := m["data"].([]any)
		verifrt.Assert(ok && len(lst) == n, "success output lists one result per item")
		for i := range lst {
			verifrt.Assert(lst[i] == any(outOf[i]), "result i is the success output of the run of item i")
		}
	} else {
		verifrt.Reach("some-failed")
		verifrt.Assert(c.prev == "failed" && c.out == "error", "some item failed or ended in a non-success output: the step reports failed.error")
		m, ok := c.data.(map[string]any)
		verifrt.Assert(ok, "error output is an object")
		// integer-keyed maps, whatever integer type the implementation uses for the keys (the declared
		// schema's conformance is C08's subject)
		errs, ok := verifIntKeyed(m["errors"])
		verifrt.Assert(ok, "error output has the declared 'errors' map")
		if ok {
			verifrt.Assert(len(errs) == len(failing), "exactly the failing item indexes are reported")
			for i := range failing {
				_, has := errs[i]
				verifrt.Assert(has, "every failing item index has a message")
			}
		}
		data, ok := verifIntKeyed(m["data"])
		verifrt.Assert(ok, "error output has the 'data' map of the other results")
		if ok {
			verifrt.Assert(len(data) == n-len(failing), "the results of exactly the other items are reported")
			for i, v := range data {
				verifrt.Assert(!failing[i] && v == any(outOf[i]), "result i is the success output of the run of item i")
			}
		}
	}
	verifEpilogue(h, r, sub)
}

// C12 (foreach instance) / C05: Close at any moment, including right after Start.
func VerifH_C12_foreach_close_anytime() {
	sub := &vSub{gate: make(chan struct{})}
	close(sub.gate)
	h := newHandler()
	h.schemas = verifSchemas(sub)
	r, err := (&runnableStep{workflow: sub, logger: vLogger{}}).Start(nil, "loop", h)
	verifrt.Assert(err == nil, "Start succeeds")
	at := verifrt.Choice("closeAt", 3)
	if at >= 1 {
		en := any(nil)
		switch verifrt.Choice("enabled", 3) {
		case 1:
			en = false
		case 2:
			en = "no" // the run loop hands literals over as text; the bool schema accepts this spelling
		}
		verifrt.Assert(r.ProvideStageInput("enabling", map[string]any{"enabled": en}) == nil, "enabling input accepted")
	}
	if at >= 2 {
		verifrt.Assert(r.ProvideStageInput("execute", map[string]any{"items": []any{verifrt.NondetVal("item")}}) == nil, "execute input accepted")
	}
	if verifrt.Choice("settle", 2) == 1 {
		verifrt.Settle()
	}
	verifEpilogue(h, r, sub)
}

// C12/C07: input provided while another goroutine closes the step.
func VerifH_C12_foreach_close_race() {
	sub := &vSub{gate: make(chan struct{})}
	close(sub.gate)
	h := newHandler()
	r, err := (&runnableStep{workflow: sub, logger: vLogger{}}).Start(nil, "loop", h)
	verifrt.Assert(err == nil, "Start succeeds")
	en := any(nil)
	if verifrt.Choice("enabled", 2) == 1 {
		en = false
	}
	verifrt.Assert(r.ProvideStageInput("enabling", map[string]any{"enabled": en}) == nil, "enabling input accepted")
	if verifrt.Choice("settle", 2) == 1 {
		verifrt.Settle()
	}
	done := make(chan struct{})
	verifrt.Go(func() {
		_ = r.Close()
		close(done)
	})
	_ = r.ProvideStageInput("execute", map[string]any{"items": []any{verifrt.NondetVal("item")}})
	<-done
	verifrt.Reach("raced")
	verifrt.Settle()
	verifrt.Assert(verifrt.LiveGoroutines() == 0, "no goroutine of the loop step survives Close")
}

// C09 (foreach instance): a loop step that has been given the input it waits for does not show as
// waiting_for_input in that stage (the run loop's detector counts steps by State()).
func VerifH_C09_foreach_no_waiting_window() {
	sub := &vSub{gate: make(chan struct{})}
	h := newHandler()
	r, err := (&runnableStep{workflow: sub, logger: vLogger{}}).Start(nil, "loop", h)
	verifrt.Assert(err == nil, "Start succeeds")
	stages := []string{"enabling", "execute"}
	upto := verifrt.Choice("stage", 2)
	for a := 0; a <= upto; a++ {
		if verifrt.Choice("let-step-run-first", 2) == 1 {
			verifrt.Settle()
		}
		if a == 0 {
			verifrt.Assert(r.ProvideStageInput("enabling", map[string]any{"enabled": nil}) == nil, "enabling input accepted")
		} else {
			verifrt.Assert(r.ProvideStageInput("execute", map[string]any{"items": []any{verifrt.NondetVal("item")}}) == nil, "execute input accepted")
		}
		if a == upto {
			rs := r.(*runningStep)
			rs.lock.Lock()
			st, cs := rs.currentState, string(rs.currentStage)
			rs.lock.Unlock()
			verifrt.Reach("checked-" + stages[a])
			verifrt.Assert(!(st == step.RunningStepStateWaitingForInput && cs == stages[a]), "a loop step that was given its "+stages[a]+" input no longer shows as waiting for input in that stage")
		}
	}
	// ... and not later either: the step's goroutine (which may have been between reading "is the input
	// there?" and publishing its state when the input arrived) goes on as far as it can - the item runs
	// block at the gate - and the detector reads the state again
	verifrt.Settle()
	{
		rs := r.(*runningStep)
		rs.lock.Lock()
		st, cs := rs.currentState, string(rs.currentStage)
		rs.lock.Unlock()
		verifrt.Assert(!(st == step.RunningStepStateWaitingForInput && cs == stages[upto]), "a loop step that was given its "+stages[upto]+" input does not show as waiting for input in that stage once it has picked the input up")
	}
	close(sub.gate)
	verifEpilogue(h, r, sub)
}

// verifIntKeyed reads a map with integer keys of either width.
func verifIntKeyed(v any) (map[int]any, bool) {
	res := map[int]any{}
	switch m := v.(type) {
	case map[int]string:
		for k, x := range m {
			res[k] = x
		}
	case map[int]any:
		for k, x := range m {
			res[k] = x
		}
	case map[int64]string:
		for k, x := range m {
			res[int(k)] = x
		}
	case map[int64]any:
		for k, x := range m {
			res[int(k)] = x
		}
	default:
		return nil, false
	}
	return res, true
}

// C06 (foreach instance): the loop step is closed (the run was cancelled) while items are still queued
// behind the parallelism limit; the item runs in flight end as they like once their context is done. If
// the step then still reports its success output, that output has one slot per item and slot k holds
// nothing but the result of item k: results of items that never ran are not papered over.
func VerifH_C06_foreach_cancel_queued() {
	n := 2 + verifrt.Choice("extra", verifrt.Param("maxExtra", 2))
	sub := &vSub{gate: make(chan struct{})}
	h := newHandler()
	h.schemas = verifSchemas(sub)
	r, err := (&runnableStep{workflow: sub, logger: vLogger{}}).Start(nil, "loop", h)
	verifrt.Assert(err == nil, "Start succeeds")
	items := make([]any, n)
	for i := range items {
		items[i] = verifrt.NondetVal("item")
	}
	verifrt.Assert(r.ProvideStageInput("enabling", map[string]any{"enabled": nil}) == nil, "enabling input accepted")
	verifrt.Assert(r.ProvideStageInput("execute", map[string]any{"items": items, "parallelism": int64(1)}) == nil, "execute input accepted")
	if verifrt.Choice("settle", 2) == 1 {
		verifrt.AwaitQuiescence() // one item run waits at the gate, the others are queued
	}
	_ = r.Close()
	verifrt.Settle()
	verifrt.Assert(sub.live == 0, "no item run is still in flight after Close")
	verifrt.Assert(verifrt.LiveGoroutines() == 0, "no goroutine of the loop step survives Close")
	c := h.completion()
	if c != nil && c.prev == "failed" && c.out == "error" {
		// C08: the failure report of a loop closed with queued items still conforms to what it declares -
		// 'data' holds results (of items that ran and succeeded) and nothing else, 'errors' messages
		verifrt.Reach("failed-after-close")
		m, ok := c.data.(map[string]any)
		verifrt.Assert(ok, "error output is an object")
		data, ok := verifIntKeyed(m["data"])
		verifrt.Assert(ok, "error output has the 'data' map of the other results")
		for i, v := range data {
			found := false
			for _, cl := range sub.calls {
				if i >= 0 && i < n && verifrt.Same(cl.item, items[i]) && cl.kind == 0 && v == any(cl.out) {
					found = true
				}
			}
			verifrt.Assert(v != nil && found, "every entry of the failure report's data is the success output of the run of that item")
		}
		errs, ok := verifIntKeyed(m["errors"])
		verifrt.Assert(ok, "error output has the declared 'errors' map")
		for i := range errs {
			_, both := data[i]
			verifrt.Assert(!both, "no item is reported both as failed and as a result")
		}
		return
	}
	if c == nil || c.out != "success" {
		verifrt.Reach("no-success")
		return
	}
	verifrt.Reach("success-after-close")
	m, ok := c.data.(map[string]any)
	verifrt.Assert(ok, "success output is an object")
	lst, ok := m["data"].([]any)
	verifrt.Assert(ok && len(lst) == n, "a success output reported after the close still has one slot per item")
	for i := range lst {
		if lst[i] == nil {
			continue
		}
		found := false
		for _, cl := range sub.calls {
			if verifrt.Same(cl.item, items[i]) && cl.kind == 0 && lst[i] == any(cl.out) {
				found = true
			}
		}
		verifrt.Assert(found, "slot i of the success output holds the success output of the run of item i and nothing else")
	}
}
