//go:build verif

package yaml

import (
	"go.flow.arcalot.io/engine/internal/verifrt"
	"gopkg.in/yaml.v3"
)

// VerifNode builds a node of the real (unexported) node type for harnesses in other packages.
func VerifNode(t TypeID, tag string, contents []Node, value string) Node {
	return &node{typeID: t, tag: tag, contents: contents, value: value}
}

var verifKinds = []yaml.Kind{yaml.ScalarNode, yaml.MappingNode, yaml.SequenceNode, yaml.AliasNode, 0, 99}
var verifTags = []string{"", "!expr"}

// verifTree builds an arbitrary yaml.v3 node tree satisfying yaml.v3's shape invariants: a mapping
// has an even number of children, a scalar/alias has none, an alias points to an anchored node - which
// yaml.v3 allows to be one of its own ancestors (it does not reject cyclic aliases when decoding into nodes).
func verifTree(depth int, ancestors ...*yaml.Node) *yaml.Node {
	n := &yaml.Node{Kind: verifKinds[verifrt.Choice("kind", len(verifKinds))], Tag: verifTags[verifrt.Choice("tag", len(verifTags))]}
	ancestors = append(ancestors, n)
	switch n.Kind {
	case yaml.AliasNode:
		// target: a scalar elsewhere in the document, or an ancestor (cyclic)
		if k := verifrt.Choice("alias-target", len(ancestors)); k == 0 {
			n.Alias = &yaml.Node{Kind: yaml.ScalarNode, Value: "a", Anchor: "x"}
		} else {
			n.Alias = ancestors[k-1]
			n.Alias.Anchor = "x"
		}
		n.Value = "x"
	case yaml.ScalarNode:
		n.Value = []string{"", "a"}[verifrt.Choice("value", 2)]
	case yaml.MappingNode:
		if depth > 0 {
			pairs := verifrt.Choice("pairs", verifrt.Param("fan", 2)+1)
			for i := 0; i < pairs; i++ {
				n.Content = append(n.Content, verifTree(depth-1, ancestors...), verifTree(depth-1, ancestors...))
			}
		}
	case yaml.SequenceNode:
		if depth > 0 {
			items := verifrt.Choice("items", verifrt.Param("fan", 2)+1)
			for i := 0; i < items; i++ {
				n.Content = append(n.Content, verifTree(depth-1, ancestors...))
			}
		}
	}
	return n
}

func verifWalk(n Node) {
	_ = n.Tag()
	_ = n.Value()
	if n.Type() == TypeIDMap {
		for _, k := range n.MapKeys() {
			c, found := n.MapKey(k)
			if found {
				verifWalk(c)
			}
		}
	}
	for _, c := range n.Contents() {
		verifWalk(c)
	}
	_ = n.Raw()
}

// C11: every yaml.v3 node tree becomes a node tree or an error; the resulting tree can be walked and
// converted to raw data without a panic.
func VerifH_C11_transform() {
	doc := &yaml.Node{Kind: yaml.DocumentNode, Content: []*yaml.Node{verifTree(verifrt.Param("depth", 2))}}
	n, err := parser{}.transform(doc)
	verifrt.Assert((n == nil) != (err == nil), "transform returns a node or an error")
	if err != nil {
		verifrt.Reach("error")
		return
	}
	verifrt.Reach("node")
	verifWalk(n)
}

// VerifParsed / VerifParseFails: what the (redirected) YAML text parser returns to its caller - the text
// parser itself (gopkg.in/yaml.v3) is below the cut line, the node tree it yields is the harness's choice.
var VerifParsed Node
var VerifParseFails bool

func verifParse(p parser, data []byte) (Node, error) {
	if VerifParseFails {
		return nil, &verifrt.Err{Msg: "yaml: syntax error"}
	}
	return VerifParsed, nil
}
