//go:build verif

package engine

import (
	"go.flow.arcalot.io/engine/internal/verifrt"
	"go.flow.arcalot.io/engine/loadfile"
	"go.flow.arcalot.io/engine/workflow"
)

// shapes a step entry of a decoded workflow can have
func verifStepShape(k int) any {
	switch k {
	case 0:
		return nil
	case 1:
		return "text"
	case 2:
		return []any{"a"}
	case 3:
		return map[any]any{}
	case 4:
		return map[any]any{"kind": "plugin"}
	case 5:
		return map[any]any{"kind": []any{"foreach"}}
	case 6:
		return map[any]any{"kind": nil}
	case 7:
		return map[any]any{"kind": "foreach"}
	case 8:
		return map[any]any{"kind": "foreach", "workflow": []any{"x.yaml"}}
	case 9:
		return map[any]any{"kind": "foreach", "workflow": nil}
	default:
		return map[any]any{"kind": "foreach", "workflow": "sub.yaml"}
	}
}

// C11: sub-workflow discovery over steps of every decoded shape never panics.
func VerifH_C11_step_workflow_paths() {
	wf := &workflow.Workflow{Steps: map[string]any{
		"s1": verifStepShape(verifrt.Choice("shape1", 11)),
		"s2": verifStepShape(verifrt.Choice("shape2", 11)),
	}}
	paths := StepWorkflowPaths(wf)
	for k, v := range paths {
		verifrt.Reach("found")
		verifrt.Assert(k == v && k == "sub.yaml", "only string paths of foreach steps are collected")
	}
}

// virtual file system and converter for SubworkflowCache
var verifFiles map[string][]string // file -> sub-workflow files its foreach steps refer to
var verifReads int

func verifReadFile(name string) ([]byte, error) {
	verifReads++
	// the virtual file system holds the context directory /ctx only; keys are paths below it
	const root = "/ctx/"
	if len(name) <= len(root) || name[:len(root)] != root {
		return nil, &verifrt.Err{Msg: "no such file " + name}
	}
	key := name[len(root):]
	if _, ok := verifFiles[key]; !ok {
		return nil, &verifrt.Err{Msg: "no such file " + name}
	}
	return []byte(key), nil
}

func verifAbs(p string) (string, error) {
	if len(p) > 0 && p[0] == '/' {
		return p, nil
	}
	return "/cwd/" + p, nil
}

type vConverter struct{}

func (vConverter) FromYAML(data []byte) (*workflow.Workflow, error) {
	wf := &workflow.Workflow{Steps: map[string]any{}}
	for i, sub := range verifFiles[string(data)] {
		wf.Steps["loop"+string(rune('0'+i))] = map[any]any{"kind": "foreach", "workflow": sub}
	}
	return wf, nil
}

// C11/C20: every sub-workflow file transitively referenced is loaded relative to the context
// directory or reported missing; self- and mutually-referencing files do not recurse without bound.
func VerifH_C11_subworkflow_cache() {
	// one of the files lives in a sub-directory of the context directory: references are relative to the
	// context directory wherever the referring file is
	names := []string{"a.yaml", "sub/b.yaml", "c.yaml"}
	verifFiles = map[string][]string{}
	present := 1 + verifrt.Choice("files", 3)
	for i := 0; i < present; i++ {
		var refs []string
		n := verifrt.Choice("refs", 3)
		for j := 0; j < n; j++ {
			refs = append(refs, names[verifrt.Choice("ref", 3)])
		}
		verifFiles[names[i]] = refs
	}
	root := &workflow.Workflow{Steps: map[string]any{"loop": map[any]any{"kind": "foreach", "workflow": "a.yaml"}}}
	var cache loadfile.FileCache
	cache, err := SubworkflowCache(root, "/ctx", vConverter{}, nil)
	// oracle: an error is justified only by a missing file or by a reference cycle reachable from a.yaml
	justified := false
	state := map[string]int{} // 1 = on the current path, 2 = done
	var visit func(f string)
	visit = func(f string) {
		refs, present := verifFiles[f]
		if !present {
			justified = true
			return
		}
		if state[f] == 1 {
			justified = true
			return
		}
		if state[f] == 2 {
			return
		}
		state[f] = 1
		for _, r := range refs {
			visit(r)
		}
		state[f] = 2
	}
	visit("a.yaml")
	if err != nil {
		verifrt.Reach("error")
		verifrt.Assert(justified, "sub-workflow files that exist and do not refer to themselves are loaded (shared sub-workflows are allowed)")
		return
	}
	verifrt.Assert(!justified, "a missing or self-referencing sub-workflow file is reported")
	verifrt.Reach("loaded")
	// every file reachable from a.yaml is in the cache, keyed by the name used in the workflow and
	// located below the context directory
	seen := map[string]bool{}
	todo := []string{"a.yaml"}
	for len(todo) > 0 {
		f := todo[0]
		todo = todo[1:]
		if seen[f] {
			continue
		}
		seen[f] = true
		cf, gerr := cache.GetByKey(f)
		verifrt.Assert(gerr == nil, "every transitively referenced sub-workflow file is in the merged cache")
		if gerr == nil {
			verifrt.Assert(cf.AbsolutePath == "/ctx/"+f, "sub-workflow files are resolved relative to the context directory")
			verifrt.Assert(string(cf.Content) == f, "the cache holds the file's content")
		}
		todo = append(todo, verifFiles[f]...)
	}
}
