//go:build verif

package workflow

// Reference oracle for run results and hand-overs. It shares no code with
// workflow.go / dgraph: it works from the template and from the table of
// outputs the abstract steps emitted.

import (
	"go.flow.arcalot.io/engine/internal/infer"
	"go.flow.arcalot.io/engine/internal/verifrt"
)

// verifRefs lists the plain (required) references in template data (not those under optional / one-of tags).
func verifRefs(data any) []*verifExpr {
	switch d := data.(type) {
	case *verifExpr:
		return append([]*verifExpr{d}, d.also...)
	case *infer.OptionalExpression, *infer.OneOfExpression:
		return nil
	case map[any]any:
		var r []*verifExpr
		for _, v := range d {
			r = append(r, verifRefs(v)...)
		}
		return r
	case []any:
		var r []*verifExpr
		for _, v := range d {
			r = append(r, verifRefs(v)...)
		}
		return r
	}
	return nil
}

func (r *vRun) refKey(e *verifExpr) (string, bool) {
	if len(e.path) >= 4 && e.path[0] == "steps" {
		return e.path[1].(string) + "." + e.path[2].(string) + "." + e.path[3].(string), true
	}
	return "", false // $.input...
}

// refProduced: was the step output a reference needs emitted (before sequence number `before`, 0 = ever)?
func (r *vRun) refProduced(e *verifExpr, before int) bool {
	if len(e.path) == 3 && e.path[0] == "steps" {
		// a reference to a whole stage ($.steps.x.outputs): produced once the stage finished with some output
		prefix := e.path[1].(string) + "." + e.path[2].(string) + "."
		for k, s := range r.emitted {
			if len(k) > len(prefix) && k[:len(prefix)] == prefix && s > 0 && (before == 0 || s < before) {
				return true
			}
		}
		return false
	}
	k, isStep := r.refKey(e)
	if !isStep {
		return true
	}
	s := r.emitted[k]
	return s > 0 && (before == 0 || s < before)
}

// verifEval evaluates template data over the emitted outputs (the declarative meaning).
func (r *vRun) verifEval(data any, input any) (any, bool) {
	switch d := data.(type) {
	case *verifExpr:
		var cur any
		rest := d.path
		if k, isStep := r.refKey(d); isStep {
			v, ok := r.emittedV[k]
			if !ok {
				return nil, false
			}
			cur = v
			rest = d.path[4:]
		} else {
			cur = input
			rest = d.path[1:]
		}
		for _, k := range rest {
			m, ok := cur.(map[any]any)
			if !ok {
				return nil, false
			}
			cur, ok = m[k]
			if !ok {
				return nil, false
			}
		}
		return cur, true
	case *infer.OptionalExpression:
		v, ok := r.verifEval(d.Expr, input)
		if !ok {
			return nil, true // absent
		}
		return v, true
	case map[any]any:
		res := map[any]any{}
		for k, v := range d {
			x, ok := r.verifEval(v, input)
			if !ok {
				return nil, false
			}
			if x != nil {
				res[k] = x
			}
		}
		return res, true
	case []any:
		res := make([]any, len(d))
		for i, v := range d {
			x, ok := r.verifEval(v, input)
			if !ok {
				return nil, false
			}
			res[i] = x
		}
		return res, true
	}
	return data, true
}

// verifSame compares two data values structurally (leaves with ==, which the solver decides for opaque values).
func verifSame(a, b any, label string) {
	switch x := a.(type) {
	case map[any]any:
		y, ok := b.(map[any]any)
		verifrt.Assert(ok && len(x) == len(y), label+" (same object shape)")
		if ok {
			for k, v := range x {
				w, has := y[k]
				verifrt.Assert(has, label+" (same keys)")
				if has {
					verifSame(v, w, label)
				}
			}
		}
	case map[string]any:
		y, ok := b.(map[string]any)
		verifrt.Assert(ok && len(x) == len(y), label+" (same object shape)")
		if ok {
			for k, v := range x {
				w, has := y[k]
				verifrt.Assert(has, label+" (same keys)")
				if has {
					verifSame(v, w, label)
				}
			}
		}
	case []any:
		y, ok := b.([]any)
		verifrt.Assert(ok && len(x) == len(y), label+" (same list length)")
		if ok {
			for i := range x {
				verifSame(x[i], y[i], label)
			}
		}
	default:
		verifrt.Assert(a == b, label)
	}
}

var verifStageFields = map[string][]string{
	"deploy":    {"deploy"},
	"enabling":  {"enabled"},
	"starting":  {"input", "wait_for", "closure_wait_timeout"},
	"cancelled": {"stop_if"},
}

// verifCheck asserts the run-level properties C01 (termination, one result), C02 (hand-overs), C03
// (declarative result), C04 (no execution without prerequisites), C05 (nothing left), C19 (input).
func verifCheck(t tWorkflow, run *vRun, res *vResult, normInput any, opts vCheckOpts) {
	// C01
	verifrt.Assert(!res.stuck || res.stuckNever, "Execute returns once all steps have finished, failed or been closed")
	verifrt.Assert((res.err == nil) != (res.id == ""), "Execute returns either an output or an error, never both or neither")
	// C03
	nProd := 0
	prodID := ""
	for id, data := range t.outputs {
		if run.verifProducible(data) {
			nProd++
			prodID = id
		}
	}
	if res.err == nil {
		verifrt.Reach("output")
		data, declared := t.outputs[res.id]
		verifrt.Assert(declared, "the returned output id is a declared output")
		if declared {
			for _, ref := range verifRefs(data) {
				verifrt.Assert(run.refProduced(ref, 0), "the returned output's dependencies were all produced")
			}
			run.verifMatch(data, res.data, true, 0, normInput, "the returned data is the output's expressions evaluated over the produced step outputs")
		}
	} else {
		verifrt.Reach("error")
	}
	if nProd == 0 {
		verifrt.Reach("no-output-producible")
		verifrt.Assert(res.err != nil && res.id == "", "no producible output: the run returns an error and no output")
		if opts.prompt {
			verifrt.Assert(!res.stuckHopeless, "no output can be produced any more: the run ends without waiting for unrelated or never-ending steps")
		}
	}
	if nProd == 1 && !res.stuck && !opts.cancelled {
		verifrt.Assert(res.err == nil && res.id == prodID, "the single producible output is the one returned")
	}
	// C03: the run does not give up while a declared output could still be produced. A step whose scripted
	// outcome is success on every stage and that was closed by the run itself would have produced its
	// success output.
	if res.err != nil && !res.stuck && !opts.cancelled {
		for _, data := range t.outputs {
			still := true
			for _, ref := range verifRefs(data) {
				if run.refProduced(ref, 0) {
					continue
				}
				would := false
				if _, isStep := run.refKey(ref); isStep && ref.path[2] == "outputs" && ref.path[3] == "success" {
					if st := run.steps[ref.path[1].(string)]; st != nil && st.preempted && st.outcome["deploy"] == 0 && st.outcome["start"] == 0 && st.outcome["result"] == 0 && len(st.outcome) >= 3 {
						would = true
						// ... provided its own prerequisites were there
						for i := range t.steps {
							if t.steps[i].id == st.id {
								for _, f := range []string{"input", "wait_for", "enabled", "deploy"} {
									for _, pre := range verifRefs(t.steps[i].fields[f]) {
										if !run.refProduced(pre, 0) {
											would = false
										}
									}
									// a one-of among its inputs needs an alternative whose sources were produced
									_, oneofs := verifTagged(t.steps[i].fields[f])
									for _, o := range oneofs {
										any := false
										for _, opt := range o.Options {
											if run.optionAvailable(opt, 0) {
												any = true
											}
										}
										if !any {
											would = false
										}
									}
								}
							}
						}
					}
				}
				if !would {
					still = false
				}
			}
			_, oneofs := verifTagged(data)
			if still && len(oneofs) == 0 && len(verifRefs(data)) > 0 {
				verifrt.Assert(false, "the run does not give up with an error while a declared output is still producible")
			}
		}
	}
	// C02 / C04 / C19
	for _, h := range run.handovers {
		var ts *tStep
		for i := range t.steps {
			if t.steps[i].id == h.step {
				ts = &t.steps[i]
			}
		}
		if ts == nil {
			continue
		}
		for _, f := range verifStageFields[h.stage] {
			data, has := ts.fields[f]
			if !has {
				continue
			}
			for _, ref := range verifRefs(data) {
				verifrt.Assert(run.refProduced(ref, h.seq), "a stage receives its input only after every value it refers to was produced")
			}
			if f != "wait_for" {
				got, present := h.input[f]
				run.verifMatch(data, got, present, h.seq, normInput, "a stage receives exactly the values its expressions evaluate to over the produced outputs")
			}
		}
	}
	for _, s := range run.steps {
		if s.executed {
			var ts *tStep
			for i := range t.steps {
				if t.steps[i].id == s.id {
					ts = &t.steps[i]
				}
			}
			for _, f := range []string{"input", "wait_for"} {
				for _, ref := range verifRefs(ts.fields[f]) {
					verifrt.Assert(run.refProduced(ref, 0), "a step executes only if every prerequisite was produced")
				}
			}
		}
	}
	// C05
	verifrt.Settle()
	verifrt.Assert(verifrt.LiveGoroutines() == 0, "no goroutine started for the run survives its return")
	verifrt.Assert(run.executing == 0, "no step is still executing after the run returned")
}

type vCheckOpts struct {
	prompt    bool // assert promptness when no output is producible
	cancelled bool
}

// ---------------------------------------------------------------------------
// tagged values (C15)

// verifTagged lists the optional and one-of expressions in template data.
func verifTagged(data any) (opts []*infer.OptionalExpression, oneofs []*infer.OneOfExpression) {
	switch d := data.(type) {
	case *infer.OptionalExpression:
		opts = append(opts, d)
	case *infer.OneOfExpression:
		oneofs = append(oneofs, d)
	case map[any]any:
		for _, v := range d {
			o, f := verifTagged(v)
			opts, oneofs = append(opts, o...), append(oneofs, f...)
		}
	case []any:
		for _, v := range d {
			o, f := verifTagged(v)
			opts, oneofs = append(opts, o...), append(oneofs, f...)
		}
	}
	return
}

// sourceFinished: the producer of a reference has produced it or has finished without it, before seq.
func (r *vRun) sourceFinished(e *verifExpr, before int) bool {
	if r.refProduced(e, before) {
		return true
	}
	if _, isStep := r.refKey(e); !isStep {
		return true
	}
	s := r.steps[e.path[1].(string)]
	return s != nil && s.finishedSeq > 0 && (before == 0 || s.finishedSeq < before)
}

func (r *vRun) optionAvailable(opt any, before int) bool {
	for _, ref := range verifRefs(opt) {
		if !r.refProduced(ref, before) {
			return false
		}
	}
	return true
}

// verifMatch asserts that got is what the template data means over the outputs produced before seq.
func (r *vRun) verifMatch(data any, got any, present bool, before int, input any, label string) {
	switch d := data.(type) {
	case *infer.OptionalExpression:
		ref := d.Expr.(*verifExpr)
		// an optional expression may have several sources ("a + b"): it is produced when all of them are
		produced := true
		decided := true // every source finished, or one finished without producing
		for _, x := range append([]*verifExpr{ref}, ref.also...) {
			if !r.refProduced(x, before) {
				produced = false
			}
			if !r.sourceFinished(x, before) {
				decided = false
			}
		}
		if !decided {
			for _, x := range append([]*verifExpr{ref}, ref.also...) {
				if r.sourceFinished(x, before) && !r.refProduced(x, before) {
					decided = true
				}
			}
		}
		if d.WaitForCompletion {
			verifrt.Assert(decided, "a wait-optional field is evaluated only after its source has finished one way or the other")
			verifrt.Assert(present == produced, "a wait-optional field is present exactly when its source was produced")
		}
		if present {
			verifrt.Reach("optional-present")
			verifrt.Assert(produced, "a present optional field has a produced source")
			if produced {
				want, _ := r.verifEval(ref, input)
				verifSame(want, got, "a present optional field carries its source's value")
			}
		} else {
			verifrt.Reach("optional-absent")
		}
	case *infer.OneOfExpression:
		verifrt.Assert(present, "a one-of value is present")
		m, ok := got.(map[any]any)
		verifrt.Assert(ok, "a one-of value is an object")
		if !ok {
			return
		}
		disc, ok := m[d.Discriminator].(string)
		verifrt.Assert(ok, "a one-of value carries its discriminator")
		opt, known := d.Options[disc]
		verifrt.Assert(known, "the discriminator names one of the alternatives")
		if !known {
			return
		}
		verifrt.Reach("oneof-" + disc)
		verifrt.Assert(r.optionAvailable(opt, before), "the selected alternative's sources were produced")
		want, evalOK := r.verifEval(opt, input)
		if evalOK {
			wm, isMap := want.(map[any]any)
			if isMap {
				wm[d.Discriminator] = disc
				verifSame(wm, got, "a one-of value is the selected alternative's data plus the discriminator")
			}
		}
	case map[any]any:
		gm, ok := got.(map[any]any)
		verifrt.Assert(present && ok, label+" (object expected)")
		if !ok {
			return
		}
		for k, v := range d {
			g, has := gm[k]
			r.verifMatch(v, g, has, before, input, label)
		}
		for k := range gm {
			_, has := d[k]
			verifrt.Assert(has, label+" (no foreign key)")
		}
	default:
		verifrt.Assert(present, label+" (value present)")
		want, ok := r.verifEval(data, input)
		if ok && present {
			verifSame(want, got, label)
		}
	}
}

// verifProducible: could the declared output be built from what was produced (by the end of the run)?
func (r *vRun) verifProducible(data any) bool {
	for _, ref := range verifRefs(data) {
		if !r.refProduced(ref, 0) {
			return false
		}
	}
	_, oneofs := verifTagged(data)
	for _, o := range oneofs {
		any := false
		for _, opt := range o.Options {
			if r.optionAvailable(opt, 0) {
				any = true
			}
		}
		if !any {
			return false
		}
	}
	return true
}
