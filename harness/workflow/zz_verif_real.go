//go:build verif

package workflow

// Composition: the REAL plugin provider (internal/step/plugin, with that package's stub deployer and
// ATP client) inside the REAL run loop. Cross-checks the lifecycle contract assumed by the
// abstract-step harnesses and serves C09 (the result of a healthy chain does not depend on scheduling).

import (
	"go.flow.arcalot.io/engine/internal/infer"
	"go.flow.arcalot.io/engine/internal/step"
	"go.flow.arcalot.io/engine/internal/step/plugin"
	"go.flow.arcalot.io/engine/internal/verifrt"
)

type vRealStep struct {
	id     string
	env    *plugin.VerifEnv
	fields map[string]any
}

func verifPrepareReal(steps []vRealStep, outputs map[string]any) *executableWorkflow {
	var specs []VerifStep
	for _, s := range steps {
		fields := map[string]any{"step": "wait"}
		for k, v := range s.fields {
			fields[k] = v
		}
		specs = append(specs, VerifStep{ID: s.id, Provider: plugin.VerifProvider(s.env), Fields: fields})
	}
	return verifPrepareRunnables(specs, outputs)
}

// VerifStep describes one step of a composition harness: the real provider that loads it (each step may
// have its own instance, e.g. with its own stub deployer) or an already loaded runnable step plus the
// provider it belongs to, and the step's fields in the workflow (expressions or literals).
type VerifStep struct {
	ID       string
	Provider step.Provider     // LoadSchema of this provider is called by Prepare (unless Runnable is set)
	Runnable step.RunnableStep // a runnable step loaded by the harness (Provider is still needed for its kind)
	Fields   map[string]any
}

// vDispatchProvider is what the step registry returns for a kind: the kind's static data come from one of
// the steps' providers, LoadSchema is dispatched to the provider (or prebuilt runnable) of the step whose id
// the template carries in its provider property.
type vDispatchProvider struct {
	step.Provider
	byID map[string]VerifStep
}

func (p *vDispatchProvider) LoadSchema(inputs map[string]any, ctx map[string][]byte) (step.RunnableStep, error) {
	id := ""
	for _, v := range inputs {
		switch m := v.(type) {
		case map[any]any:
			if s, ok := m["verif_step_id"].(string); ok {
				id = s
			}
		case map[string]any:
			if s, ok := m["verif_step_id"].(string); ok {
				id = s
			}
		case string:
			if _, known := p.byID[m]; known {
				id = m
			}
		}
	}
	st, ok := p.byID[id]
	verifrt.Assert(ok, "harness: the step id is carried by the provider property")
	if st.Runnable != nil {
		return st.Runnable, nil
	}
	return st.Provider.LoadSchema(map[string]any{"plugin": map[string]any{"src": "image", "deployment_type": "builtin"}}, ctx)
}

type vKindRegistry struct {
	step.Registry
	kinds map[string]*vDispatchProvider
}

func (r *vKindRegistry) GetByKind(kind string) (step.Provider, error) {
	if p, ok := r.kinds[kind]; ok {
		return p, nil
	}
	return nil, &verifrt.Err{Msg: "unknown kind " + kind}
}

// verifPrepareRunnables: the REAL Prepare over real providers / runnable steps.
func verifPrepareRunnables(steps []VerifStep, outputs map[string]any) *executableWorkflow {
	reg := &vKindRegistry{kinds: map[string]*vDispatchProvider{}}
	wf := &Workflow{Input: map[any]any{}, Steps: map[string]any{}, Outputs: outputs}
	for _, s := range steps {
		kind := s.Provider.Kind()
		d := reg.kinds[kind]
		if d == nil {
			d = &vDispatchProvider{Provider: s.Provider, byID: map[string]VerifStep{}}
			reg.kinds[kind] = d
		}
		d.byID[s.ID] = s
		data := map[any]any{"kind": kind}
		for prop := range s.Provider.ProviderSchema() {
			// the provider property carries the step id (the dispatcher replaces it by the real one)
			data[prop] = map[any]any{"verif_step_id": s.ID}
		}
		for k, v := range s.Fields {
			data[k] = v
		}
		wf.Steps[s.ID] = data
	}
	e := &executor{logger: vLogger{}, config: verifConfig(), stepRegistry: reg}
	return verifRealPrepare(e, wf)
}

// ---- exported entry points for composition harnesses that live in the step packages
// (internal/step/foreach imports this package, so its harness cannot be written here)

// VerifExpr is a reference expression $.path[0].path[1]... of the harness expression stub.
func VerifExpr(path ...any) any { return vx(path...) }

// VerifPrepared is a prepared workflow assembled by VerifPrepareSteps.
type VerifPrepared struct{ ew *executableWorkflow }

func VerifPrepareSteps(steps []VerifStep, outputs map[string]any) VerifPrepared {
	return VerifPrepared{ew: verifPrepareRunnables(steps, outputs)}
}

// VerifRunResult: what Execute returned, or Stuck if it had not returned when nothing could move any more.
type VerifRunResult struct {
	ID    string
	Data  any
	Err   error
	Stuck bool
}

// VerifRun runs the real Execute with the quiescence watchdog of the run-loop harnesses.
func VerifRun(p VerifPrepared, input any) VerifRunResult {
	res := verifExecute(p.ew, newRun(), tWorkflow{}, input)
	return VerifRunResult{ID: res.id, Data: res.data, Err: res.err, Stuck: res.stuck}
}

// C09 / composition: a healthy two-step chain of REAL plugin steps always returns its success output,
// whatever the schedule (within the delay bound): in particular never ErrNoMorePossibleSteps.
func VerifH_C09_real_chain() {
	ea, eb := plugin.VerifNewScriptedEnv("success"), plugin.VerifNewScriptedEnv("success")
	steps := []vRealStep{
		{id: "a", env: ea, fields: map[string]any{"input": verifStepInput(vx("input"))}},
		{id: "b", env: eb, fields: map[string]any{"input": verifStepInput(vx("steps", "a", "outputs", "success", "v"))}},
	}
	ew := verifPrepareReal(steps, map[string]any{"success": map[any]any{"r": vx("steps", "b", "outputs", "success", "v")}})
	run := newRun()
	t := tWorkflow{}
	in := verifrt.NondetVal("input")
	res := verifExecute(ew, run, t, in)
	verifrt.Assert(!res.stuck, "the run returns")
	verifrt.Assert(res.err == nil && res.id == "success", "a healthy chain returns its success output on every schedule")
	if res.err == nil {
		verifrt.Reach("output")
		m, ok := res.data.(map[any]any)
		verifrt.Assert(ok && m["r"] == any(eb.VerifResult()), "the output carries the value the second step produced")
	}
	verifrt.Assert(ea.VerifExecuted() == 1 && eb.VerifExecuted() == 1, "each plugin was executed exactly once")
	verifrt.Settle()
	verifrt.Assert(ea.VerifAllClosed() && eb.VerifAllClosed(), "every deployed plugin (including the schema probes) was closed")
	verifrt.Assert(verifrt.LiveGoroutines() == 0, "no goroutine survives the run")
}

// Composition with every outcome of the REAL steps: the run returns; it yields the output exactly when
// both plugins succeeded; the second plugin is never executed unless the first produced its output;
// nothing stays deployed or running.
func VerifH_C01_real_chain_outcomes() {
	ea, eb := plugin.VerifNewLazyEnv(), plugin.VerifNewLazyEnv()
	steps := []vRealStep{
		{id: "a", env: ea, fields: map[string]any{"input": verifStepInput(vx("input"))}},
		{id: "b", env: eb, fields: map[string]any{"input": verifStepInput(vx("steps", "a", "outputs", "success", "v"))}},
	}
	ew := verifPrepareReal(steps, map[string]any{"success": map[any]any{"r": vx("steps", "b", "outputs", "success", "v")}})
	run := newRun()
	in := verifrt.NondetVal("input")
	ea.VerifSetLazy(true)
	eb.VerifSetLazy(true)
	res := verifExecute(ew, run, tWorkflow{}, in)
	verifrt.Assert(!res.stuck, "the run returns once all steps have finished or failed")
	verifrt.Assert((res.err == nil) != (res.id == ""), "Execute returns either an output or an error, never both or neither")
	both := ea.VerifSucceeded() && eb.VerifSucceeded()
	if both {
		verifrt.Reach("output")
		verifrt.Assert(res.err == nil && res.id == "success", "both steps succeeded: the output is returned")
	} else {
		verifrt.Reach("error")
		verifrt.Assert(res.err != nil, "a step did not produce its success output: the run returns an error")
	}
	if eb.VerifExecuted() > 0 {
		verifrt.Assert(ea.VerifSucceeded(), "the second plugin is executed only if the first produced the output it consumes")
	}
	verifrt.Settle()
	verifrt.Assert(ea.VerifAllClosed() && eb.VerifAllClosed(), "every deployed plugin (including the schema probes) was closed")
	verifrt.Assert(verifrt.LiveGoroutines() == 0, "no goroutine survives the run")
}

// C09 / composition: two independent REAL plugin steps feed the only output. One goroutine may be slow at
// any one point for as long as it takes everything else - the detector's retry timers included - to come
// to rest ("stall" decision of the scheduler): the healthy run still returns its success output.
func VerifH_C09_real_parallel() {
	ea, eb := plugin.VerifNewScriptedEnv("success"), plugin.VerifNewScriptedEnv("success")
	steps := []vRealStep{
		{id: "a", env: ea, fields: map[string]any{"input": verifStepInput(vx("input"))}},
		{id: "b", env: eb, fields: map[string]any{"input": verifStepInput(vx("input"))}},
	}
	ew := verifPrepareReal(steps, map[string]any{"success": map[any]any{
		"a": vx("steps", "a", "outputs", "success", "v"),
		"b": vx("steps", "b", "outputs", "success", "v"),
	}})
	res := verifExecute(ew, newRun(), tWorkflow{}, verifrt.NondetVal("input"))
	verifrt.Assert(!res.stuck, "the run returns")
	verifrt.Assert(res.err == nil && res.id == "success", "a healthy run returns its success output however slow one goroutine is")
	if res.err == nil {
		verifrt.Reach("output")
	}
	verifrt.Settle()
	verifrt.Assert(verifrt.LiveGoroutines() == 0, "no goroutine survives the run")
}

// C03 / composition: the first REAL plugin step cannot be deployed; the second one, which consumes the
// first one's output, is deployed (possibly slowly: stall decision) and then waits for an input that can
// never come. The workflow declares a second output on a stage of the waiting step that the graph cannot
// rule out while the step lives. No declared output is producible: the engine itself ends the run with an
// error, whichever event happens last (the failure of the first step or the second one starting to wait).
func VerifH_C03_real_stuck_waiter() {
	ea, eb := plugin.VerifNewScriptedEnv("success"), plugin.VerifNewScriptedEnv("success")
	steps := []vRealStep{
		{id: "a", env: ea, fields: map[string]any{"input": verifStepInput(vx("input"))}},
		{id: "b", env: eb, fields: map[string]any{"input": verifStepInput(vx("steps", "a", "outputs", "success", "v"))}},
	}
	ew := verifPrepareReal(steps, map[string]any{
		"success":   map[any]any{"r": vx("steps", "b", "outputs", "success", "v")},
		"b_crashed": map[any]any{"reason": vx("steps", "b", "crashed", "error")},
	})
	ea.VerifFailDeploy()
	res := verifExecute(ew, newRun(), tWorkflow{}, verifrt.NondetVal("input"))
	verifrt.Assert(!res.stuck, "no declared output is producible: the engine ends the run by itself")
	verifrt.Assert(res.err != nil && res.id == "", "no declared output is producible: an error and no output")
	if res.err != nil {
		verifrt.Reach("error")
	}
	verifrt.Assert(eb.VerifExecuted() == 0, "the second plugin is never executed")
	verifrt.Settle()
	verifrt.Assert(ea.VerifAllClosed() && eb.VerifAllClosed(), "every deployed plugin (including the schema probes) was closed")
	verifrt.Assert(verifrt.LiveGoroutines() == 0, "no goroutine survives the run")
}


// C09 / composition: the only output joins the success output of a REAL plugin step with a wait-optional
// value from a stage the step does not go through (crashed). Once the plugin has succeeded the result is
// fixed - the optional value is absent. However slow the step's goroutine is between two of its
// notifications (stall decision), the run returns that result and does not report a standstill.
func VerifH_C09_real_optional_other_stage() {
	ea := plugin.VerifNewScriptedEnv("success")
	steps := []vRealStep{{id: "a", env: ea, fields: map[string]any{"input": verifStepInput(vx("input"))}}}
	ew := verifPrepareReal(steps, map[string]any{"success": map[any]any{
		"r": vx("steps", "a", "outputs", "success", "v"),
		"c": &infer.OptionalExpression{Expr: vx("steps", "a", "crashed", "error"), WaitForCompletion: true},
	}})
	res := verifExecute(ew, newRun(), tWorkflow{}, verifrt.NondetVal("input"))
	verifrt.Assert(!res.stuck, "the run returns")
	verifrt.Assert(res.err == nil && res.id == "success", "the result is fixed once the plugin succeeded: it is returned however slow the step's goroutine is between two notifications")
	if res.err == nil {
		verifrt.Reach("output")
		m, ok := res.data.(map[any]any)
		_, has := m["c"]
		verifrt.Assert(ok && !has, "the wait-optional value of the stage that did not happen is absent")
	}
	verifrt.Settle()
	verifrt.Assert(verifrt.LiveGoroutines() == 0, "no goroutine survives the run")
}
