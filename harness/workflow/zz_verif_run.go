//go:build verif

package workflow

import (
	"context"

	"go.flow.arcalot.io/engine/internal/infer"

	"go.flow.arcalot.io/engine/internal/verifrt"
)

// verifExecute runs the real Execute with a watchdog that observes quiescence: if every goroutine is
// blocked, no timer is pending and Execute has not returned, the watchdog records it and cancels the
// caller's context (so the run can still be driven to its end and checked).
type vResult struct {
	id         string
	data       any
	err        error
	returned   bool
	stuck      bool // quiescent before Execute returned
	stuckNever bool // ... while some step was in its never-ending running phase
	stuckHopeless bool // ... while no declared output could be produced any more
}

func verifAtomicMark(r *vResult, run *vRun, t tWorkflow) {
	if !r.returned {
		r.stuck = true
		for _, s := range run.steps {
			if s.never && s.state != "finished" {
				r.stuckNever = true
			}
		}
		r.stuckHopeless = run.possibleOutputs(t) == 0
	}
}

// possibleOutputs counts the declared outputs none of whose references is already impossible
// (its producer finished without emitting it).
func (r *vRun) possibleOutputs(t tWorkflow) int {
	n := 0
	for _, data := range t.outputs {
		possible := true
		for _, ref := range verifRefs(data) {
			if !r.refProduced(ref, 0) {
				if _, isStep := r.refKey(ref); isStep {
					if s := r.steps[ref.path[1].(string)]; s != nil && s.state == "finished" {
						possible = false
					}
				}
			}
		}
		if possible {
			n++
		}
	}
	return n
}
func verifAtomicReturned(r *vResult) { r.returned = true }

func verifExecute(ew *executableWorkflow, run *vRun, t tWorkflow, input any) *vResult {
	res := &vResult{}
	ctx, cancel := context.WithCancel(context.Background())
	verifrt.Go(func() {
		verifrt.AwaitQuiescence()
		verifAtomicMark(res, run, t)
		cancel()
	})
	res.id, res.data, res.err = ew.Execute(ctx, input)
	verifAtomicReturned(res)
	cancel()
	return res
}

func verifStepInput(e any) map[any]any { return map[any]any{"x": e} }

func (r *vRun) produced(step, stage, out string) bool { return r.emitted[step+"."+stage+"."+out] > 0 }

func verifNorm(in verifrt.Val) any { return verifrt.UF("S", verifrt.UF("U", in)) }

// chain(2): b consumes a's success output; the only workflow output consumes b's success output.
func verifChain2() tWorkflow {
	return tWorkflow{
		steps: []tStep{
			{id: "a", fields: map[string]any{"input": verifStepInput(vx("input"))}},
			{id: "b", fields: map[string]any{"input": verifStepInput(vx("steps", "a", "outputs", "success", "v"))}},
		},
		outputs: map[string]any{"success": map[any]any{"r": vx("steps", "b", "outputs", "success", "v")}},
	}
}

func VerifH_C01_chain2() {
	t := verifChain2()
	ew, run := verifPrepare(t)
	in := verifrt.NondetVal("input")
	res := verifExecute(ew, run, t, in)
	verifCheck(t, run, res, verifNorm(in), vCheckOpts{})
}

// two declared outputs fed by alternative outputs of the same step, plus an unrelated step.
func verifAltOutputs() tWorkflow {
	return tWorkflow{
		steps: []tStep{
			{id: "a", fields: map[string]any{"input": verifStepInput(vx("input"))}},
		},
		outputs: map[string]any{
			"success": map[any]any{"r": vx("steps", "a", "outputs", "success", "v")},
			"error":   map[any]any{"e": vx("steps", "a", "outputs", "error", "v")},
			"crashed": map[any]any{"c": vx("steps", "a", "crashed", "error")},
		},
	}
}

func VerifH_C03_alt_outputs() {
	t := verifAltOutputs()
	ew, run := verifPrepare(t)
	in := verifrt.NondetVal("input")
	res := verifExecute(ew, run, t, in)
	verifCheck(t, run, res, verifNorm(in), vCheckOpts{})
}

// diamond: b and c consume a; the output consumes b and c.
func verifDiamond() tWorkflow {
	return tWorkflow{
		steps: []tStep{
			{id: "a", fields: map[string]any{"input": verifStepInput(vx("input"))}, outcome: map[string]int{"deploy": 0, "start": 0}},
			{id: "b", fields: map[string]any{"input": verifStepInput(vx("steps", "a", "outputs", "success", "v"))}, outcome: map[string]int{"deploy": 0}},
			{id: "c", fields: map[string]any{"input": verifStepInput(vx("steps", "a", "outputs", "success", "v")), "wait_for": vx("steps", "b", "outputs")}, outcome: map[string]int{"start": 0}},
		},
		outputs: map[string]any{"success": map[any]any{"b": vx("steps", "b", "outputs", "success", "v"), "c": vx("steps", "c", "outputs", "success", "v")}},
	}
}

func VerifH_C02_diamond() {
	t := verifDiamond()
	ew, run := verifPrepare(t)
	in := verifrt.NondetVal("input")
	res := verifExecute(ew, run, t, in)
	verifCheck(t, run, res, verifNorm(in), vCheckOpts{})
}

// fan_in(N): N steps all feeding the only output; every step fails at deployment.
func VerifH_C01_fan_in_all_fail() {
	n := verifrt.Param("N", 3)
	t := tWorkflow{outputs: map[string]any{}}
	out := map[any]any{}
	for i := 0; i < n; i++ {
		id := "s" + string(rune('a'+i/26)) + string(rune('a'+i%26))
		t.steps = append(t.steps, tStep{id: id, fields: map[string]any{"input": verifStepInput(vx("input"))}, outcome: map[string]int{"deploy": 1}})
		out[id] = vx("steps", id, "outputs", "success", "v")
	}
	t.outputs["success"] = out
	ew, run := verifPrepare(t)
	in := verifrt.NondetVal("input")
	res := verifExecute(ew, run, t, in)
	verifCheck(t, run, res, verifNorm(in), vCheckOpts{})
}

// promptness: the only output refers to an output that can no longer be produced while an unrelated
// step keeps running for ever.
func VerifH_C01_prompt_unrelated() {
	t := tWorkflow{
		steps: []tStep{
			{id: "a", fields: map[string]any{"input": verifStepInput(vx("input"))}, outcome: map[string]int{"deploy": 0, "start": 0}},
			{id: "b", fields: map[string]any{"input": verifStepInput(vx("input"))}, outcome: map[string]int{"deploy": 0, "start": 0, "result": 3}},
		},
		outputs: map[string]any{"success": map[any]any{"r": vx("steps", "a", "outputs", "success", "v")}},
	}
	ew, run := verifPrepare(t)
	in := verifrt.NondetVal("input")
	res := verifExecute(ew, run, t, in)
	verifCheck(t, run, res, verifNorm(in), vCheckOpts{prompt: true})
}

// promptness with an output that refers to a stage output the provider never declares impossible
// on its success path (crashed.error of a step that succeeded).
func VerifH_C01_prompt_crashed_ref() {
	t := tWorkflow{
		steps: []tStep{
			{id: "a", fields: map[string]any{"input": verifStepInput(vx("input"))}, outcome: map[string]int{"deploy": 0, "start": 0, "result": 0}},
			{id: "b", fields: map[string]any{"input": verifStepInput(vx("input"))}, outcome: map[string]int{"deploy": 0, "start": 0, "result": 3}},
		},
		outputs: map[string]any{"failed": map[any]any{"r": vx("steps", "a", "crashed", "error")}},
	}
	ew, run := verifPrepare(t)
	in := verifrt.NondetVal("input")
	res := verifExecute(ew, run, t, in)
	verifCheck(t, run, res, verifNorm(in), vCheckOpts{prompt: true})
}

// C04: b is enabled by a flag a produces, and stopped by a flag c produces; b must execute only if
// a's output was produced and the flag was true.
func verifGated() tWorkflow {
	return tWorkflow{
		steps: []tStep{
			{id: "a", fields: map[string]any{"input": verifStepInput(vx("input"))}, outcome: map[string]int{"deploy": 0, "start": 0}},
			{id: "b", fields: map[string]any{
				"input":   verifStepInput(vx("steps", "a", "outputs", "success", "v")),
				"enabled": vx("steps", "a", "outputs", "success", "flag"),
			}, outcome: map[string]int{"deploy": 0, "start": 0}},
		},
		outputs: map[string]any{
			"success":  map[any]any{"r": vx("steps", "b", "outputs", "success", "v")},
			"disabled": map[any]any{"m": vx("steps", "b", "disabled", "output", "message")},
		},
	}
}

func VerifH_C04_gated() {
	t := verifGated()
	ew, run := verifPrepare(t)
	in := verifrt.NondetVal("input")
	res := verifExecute(ew, run, t, in)
	verifCheck(t, run, res, verifNorm(in), vCheckOpts{})
	b := run.steps["b"]
	if b != nil && b.executed {
		verifrt.Reach("b-executed")
		verifrt.Assert(run.produced("a", "outputs", "success"), "b executes only if a produced the output b consumes")
		flag := run.emittedV["a.outputs.success"].(map[any]any)["flag"]
		verifrt.Assert(flag == any(true), "b executes only if its enabled condition evaluated to true")
	}
	if run.produced("b", "disabled", "output") {
		verifrt.Reach("b-disabled")
		verifrt.Assert(!b.executed, "a disabled step never executes")
		verifrt.Assert(res.err == nil && res.id == "disabled", "a disabled step reports its disabled output")
	}
}

// C04: stop_if fired by another step before b starts: b must never execute.
func VerifH_C04_stopped_before_start() {
	t := tWorkflow{
		steps: []tStep{
			{id: "a", fields: map[string]any{"input": verifStepInput(vx("input"))}, outcome: map[string]int{"deploy": 0, "start": 0, "result": 0}},
			{id: "b", fields: map[string]any{
				"input":   verifStepInput(vx("input")),
				"stop_if": vx("steps", "a", "outputs", "success", "flag"),
				"wait_for": vx("steps", "a", "outputs"),
			}, outcome: map[string]int{"deploy": 0, "start": 0}},
		},
		outputs: map[string]any{
			"success": map[any]any{"r": vx("steps", "b", "outputs", "success", "v")},
			"closed":  map[any]any{"c": vx("steps", "b", "closed", "result")},
		},
	}
	ew, run := verifPrepare(t)
	in := verifrt.NondetVal("input")
	res := verifExecute(ew, run, t, in)
	verifCheck(t, run, res, verifNorm(in), vCheckOpts{})
}

// C07: an expression that fails at run time ends the run with an error, not with a panic.
func VerifH_C07_eval_error() {
	t := verifChain2()
	bad := vx("steps", "a", "outputs", "success", "v")
	bad.fail = true
	t.steps[1].fields["input"] = verifStepInput(bad)
	ew, run := verifPrepare(t)
	in := verifrt.NondetVal("input")
	res := verifExecute(ew, run, t, in)
	verifrt.Assert((res.err == nil) != (res.id == ""), "Execute returns either an output or an error, never both or neither")
	if run.produced("a", "outputs", "success") {
		verifrt.Reach("evaluated")
		verifrt.Assert(res.err != nil, "a failing run-time evaluation ends the run with an error")
	}
	verifrt.Settle()
	verifrt.Assert(verifrt.LiveGoroutines() == 0, "no goroutine started for the run survives its return")
}

// C07: a step that ends with an output id its lifecycle does not declare (a misbehaving step) ends the
// run with a returned error: no panic on the step's goroutine, whichever of the two steps misbehaves.
func VerifH_C07_undeclared_output() {
	t := verifChain2()
	who := verifrt.Choice("misbehaving", 2)
	for i := range t.steps { // both steps come to their end by themselves; one of them misbehaves there
		t.steps[i].outcome = map[string]int{"deploy": 0, "start": 0, "result": 0}
	}
	t.steps[who].outcome["undeclared"] = 1
	ew, run := verifPrepare(t)
	res := verifExecute(ew, run, t, verifrt.NondetVal("input"))
	verifrt.Assert(!res.stuck, "the run returns")
	verifrt.Assert((res.err == nil) != (res.id == ""), "Execute returns either an output or an error, never both or neither")
	if run.produced(t.steps[who].id, "outputs", "surprise") {
		verifrt.Reach("misbehaved")
		verifrt.Assert(res.err != nil, "an undeclared step output ends the run with an error")
	}
	verifrt.Settle()
	verifrt.Assert(verifrt.LiveGoroutines() == 0, "no goroutine started for the run survives its return")
}

// C07: a failing run-time evaluation of the workflow output ends the run with an error.
func VerifH_C07_output_eval_error() {
	t := verifChain2()
	bad := vx("steps", "b", "outputs", "success", "v")
	bad.fail = true
	t.outputs["success"] = map[any]any{"r": bad}
	ew, run := verifPrepare(t)
	in := verifrt.NondetVal("input")
	res := verifExecute(ew, run, t, in)
	verifrt.Assert((res.err == nil) != (res.id == ""), "Execute returns either an output or an error, never both or neither")
	if run.produced("b", "outputs", "success") {
		verifrt.Reach("evaluated")
		verifrt.Assert(res.err != nil, "a failing run-time evaluation of the output ends the run with an error")
	}
}

// C19: invalid workflow input starts nothing; valid input is seen normalised by every step.
func VerifH_C19_input() {
	t := tWorkflow{
		steps: []tStep{
			{id: "a", fields: map[string]any{"input": verifStepInput(vx("input"))}, outcome: map[string]int{"deploy": 0, "start": 0, "result": 0}},
			{id: "b", fields: map[string]any{"input": verifStepInput(vx("input")), "deploy": vx("input")}, outcome: map[string]int{"deploy": 0, "start": 0, "result": 0}},
		},
		outputs: map[string]any{"success": map[any]any{"a": vx("steps", "a", "outputs", "success", "v"), "in": vx("input")}},
	}
	ew, run := verifPrepare(t)
	sc := ew.input.(*vScope)
	switch verifrt.Choice("validity", 3) {
	case 1:
		sc.invalid = true
	case 2:
		sc.serFails = true
	}
	in := verifrt.NondetVal("input")
	res := verifExecute(ew, run, t, in)
	if sc.invalid || sc.serFails {
		verifrt.Reach("refused")
		verifrt.Assert(res.err != nil && res.id == "", "invalid input: the run is refused with an error")
		verifrt.Assert(len(run.steps) == 0, "invalid input: no step is started")
		verifrt.Assert(run.deploys == 0 && len(run.handovers) == 0, "invalid input: nothing is deployed and no stage input is handed over")
		return
	}
	verifrt.Reach("accepted")
	verifCheck(t, run, res, verifNorm(in), vCheckOpts{})
	// both steps observed the same normalised input
	var seen []any
	for _, h := range run.handovers {
		if h.stage == "starting" {
			seen = append(seen, h.input["input"].(map[any]any)["x"])
		}
	}
	verifrt.Assert(len(seen) == 2, "both steps were started")
	for _, v := range seen {
		verifrt.Assert(v == verifNorm(in), "every step observes the schema-normalised input S(U(x))")
	}
}

// C06 (run-loop side): the caller's context is cancelled at an arbitrary event position.
func VerifH_C06_cancel_anytime() {
	t := verifChain2()
	ew, run := verifPrepare(t)
	in := verifrt.NondetVal("input")
	res := &vResult{}
	ctx, cancel := context.WithCancel(context.Background())
	run.cancel = cancel
	run.cancelAt = 1 + verifrt.Choice("cancelAt", verifrt.Param("maxEvents", 14))
	verifrt.Go(func() {
		verifrt.AwaitQuiescence()
		verifAtomicMark(res, run, t)
		if !run.cancelled {
			run.cancelled = true
			run.cancelT = verifrt.Now()
		}
		cancel()
	})
	res.id, res.data, res.err = ew.Execute(ctx, in)
	tEnd := verifrt.Now()
	verifAtomicReturned(res)
	cancel()
	if run.cancelled {
		verifrt.Reach("cancelled")
		verifrt.Assert((tEnd-run.cancelT)/1000000 <= 5000, "after cancellation the run returns within the grace period plus the steps' closure timeouts")
	}
	verifCheck(t, run, res, verifNorm(in), vCheckOpts{cancelled: true})
}

// C19: the input document is an object (the usual case): every reference to one of its fields - from a
// step and from the workflow output - observes the field as normalised by the schema, S(U(x)).
func VerifH_C19_object_input() {
	t := tWorkflow{
		steps: []tStep{
			{id: "a", fields: map[string]any{"input": verifStepInput(vx("input", "k"))}, outcome: map[string]int{"deploy": 0, "start": 0, "result": 0}},
		},
		outputs: map[string]any{"success": map[any]any{"a": vx("steps", "a", "outputs", "success", "v"), "in": vx("input", "k"), "e": vx("input", "e")}},
	}
	ew, run := verifPrepare(t)
	k := verifrt.NondetVal("input.k")
	// an explicitly empty string and an explicit null are values like any other: the schema judges them
	doc := map[string]any{"k": k, "e": "", "n": nil}
	res := verifExecute(ew, run, t, any(doc))
	sc := ew.input.(*vScope)
	seen, isMap := sc.seen.(map[string]any)
	_, hasN := seen["n"]
	verifrt.Assert(sc.sawInput && isMap && len(seen) == len(doc) && seen["e"] == any("") && hasN && seen["k"] == any(k), "the schema is asked to judge the document the caller passed, every field as given")
	verifrt.Assert(res.err == nil && res.id == "success", "a valid input is accepted and the run produces its output")
	if res.err != nil {
		return
	}
	verifrt.Reach("accepted")
	want := any(verifNorm(k))
	for _, h := range run.handovers {
		if h.stage == "starting" {
			verifrt.Reach("step-saw-input")
			verifrt.Assert(h.input["input"].(map[any]any)["x"] == want, "every step observes the schema-normalised input S(U(x))")
		}
	}
	m, ok := res.data.(map[any]any)
	verifrt.Assert(ok && m["in"] == want, "the workflow output observes the schema-normalised input S(U(x))")
	verifrt.Assert(ok && m["e"] == any(""), "an explicitly empty string in the input is the value references to it observe")
}

// C06: the caller cancels and closing the steps takes longer than the fixed grace period (5 s): the run
// still ends with an error or an output - never with neither - and not later than the grace period plus the
// time the steps need to close.
func VerifH_C06_grace_expires() {
	t := verifChain2()
	t.steps[0].outcome = map[string]int{"deploy": 0, "start": 0, "result": 3, "slow-close": 1}
	ew, run := verifPrepare(t)
	in := verifrt.NondetVal("input")
	res := &vResult{}
	ctx, cancel := context.WithCancel(context.Background())
	run.cancel = cancel
	run.cancelAt = 1 + verifrt.Choice("cancelAt", verifrt.Param("maxEvents", 6))
	verifrt.Go(func() {
		verifrt.AwaitQuiescence()
		verifAtomicMark(res, run, t)
		if !run.cancelled {
			run.cancelled = true
			run.cancelT = verifrt.Now()
		}
		cancel()
	})
	res.id, res.data, res.err = ew.Execute(ctx, in)
	tEnd := verifrt.Now()
	verifAtomicReturned(res)
	cancel()
	verifrt.Assert((res.err == nil) != (res.id == ""), "a cancelled run ends with an error or an output, never with neither or both")
	if run.cancelled {
		verifrt.Reach("cancelled")
		verifrt.Assert((tEnd-run.cancelT)/1000000 <= 5000+6000, "after cancellation the run returns within the grace period plus the time the steps need to close")
	}
	verifrt.Settle()
	verifrt.Assert(verifrt.LiveGoroutines() == 0, "no goroutine survives the run")
}

// C08 (validation order): a stage input is handed to a step only after its schema accepted it, and an
// output is returned only after the output schema accepted its data.
func VerifH_C08_validation_order() {
	t := verifChain2()
	t.steps[0].outcome = map[string]int{"deploy": 0, "start": 0, "result": 0}
	t.steps[1].outcome = map[string]int{"deploy": 0, "start": 0, "result": 0}
	ew, run := verifPrepare(t)
	verifValidated, verifOutputValidated = 0, 0
	verifRejectStageInput = verifrt.Choice("stage-input-valid", 2) == 1
	verifRejectOutput = verifrt.Choice("output-valid", 2) == 1
	in := verifrt.NondetVal("input")
	res := verifExecute(ew, run, t, in)
	verifrt.Assert((res.err == nil) != (res.id == ""), "Execute returns either an output or an error, never both or neither")
	if verifRejectStageInput {
		verifrt.Reach("input-rejected")
		verifrt.Assert(len(run.handovers) == 0, "a stage input its schema rejects is never handed to the step")
		verifrt.Assert(res.err != nil, "a rejected stage input ends the run with an error")
	} else {
		verifrt.Assert(len(run.handovers) <= verifValidated, "every hand-over was preceded by a validation of that input")
	}
	if res.err == nil {
		verifrt.Reach("output")
		verifrt.Assert(!verifRejectOutput && verifOutputValidated >= 1, "an output is returned only after its schema accepted the data")
	}
	verifRejectStageInput, verifRejectOutput = false, false
}

// C14: a prepared workflow run twice in a row (whatever the first run's outcome) gives, each time, what
// an isolated run gives; the prepared graph is not consumed.
func VerifH_C14_rerun() {
	t := verifChain2()
	h := &vRunHolder{byG: map[int]*vRun{}}
	ew, _ := verifPrepareH(t, h)
	edges0 := verifEdges(ew.dag)
	for k := 0; k < 2; k++ {
		run := newRun()
		h.cur = run
		in := verifrt.NondetVal("input")
		res := verifExecute(ew, run, t, in)
		verifCheck(t, run, res, verifNorm(in), vCheckOpts{})
	}
	a, b := verifDiff(edges0, verifEdges(ew.dag))
	verifrt.Assert(len(a) == 0 && len(b) == 0, "running a prepared workflow leaves its dependency graph untouched")
}

// C14: a later run of one prepared workflow behaves like a first run also where earlier runs left their
// mark on "no output is possible any more": the only output becomes impossible while an unrelated step
// keeps running for ever, in the first run and again in the second - each run ends promptly by itself.
func VerifH_C14_rerun_prompt() {
	t := tWorkflow{
		steps: []tStep{
			{id: "a", fields: map[string]any{"input": verifStepInput(vx("input"))}, outcome: map[string]int{"deploy": 0, "start": 0}},
			{id: "b", fields: map[string]any{"input": verifStepInput(vx("input"))}, outcome: map[string]int{"deploy": 0, "start": 0, "result": 3}},
		},
		outputs: map[string]any{"success": map[any]any{"r": vx("steps", "a", "outputs", "success", "v")}},
	}
	h := &vRunHolder{byG: map[int]*vRun{}}
	ew, _ := verifPrepareH(t, h)
	for k := 0; k < 2; k++ {
		run := newRun()
		h.cur = run
		in := verifrt.NondetVal("input")
		res := verifExecute(ew, run, t, in)
		verifCheck(t, run, res, verifNorm(in), vCheckOpts{prompt: true})
		if k == 1 {
			verifrt.Reach("second-run")
		}
	}
}

// C05 / C01: Execute fails to start one of the steps (a provider may refuse). Whichever step it is, Execute
// returns the error, and the steps it had already started are closed: nothing of the run stays behind.
func VerifH_C05_start_fails() {
	t := tWorkflow{
		steps: []tStep{
			{id: "a", fields: map[string]any{"input": verifStepInput(vx("input"))}, outcome: map[string]int{}},
			{id: "b", fields: map[string]any{"input": verifStepInput(vx("input"))}, outcome: map[string]int{}},
			{id: "c", fields: map[string]any{"input": verifStepInput(vx("input"))}, outcome: map[string]int{}},
		},
		outputs: map[string]any{"success": map[any]any{"r": vx("steps", "a", "outputs", "success", "v")}},
	}
	t.steps[verifrt.Choice("failing-step", 3)].outcome["start-fails"] = 1
	ew, run := verifPrepare(t)
	res := verifExecute(ew, run, t, verifrt.NondetVal("input"))
	verifrt.Assert(!res.stuck, "Execute returns when a step cannot be started")
	verifrt.Assert(res.err != nil && res.id == "", "a step that cannot be started makes the run fail with an error")
	verifrt.Settle()
	verifrt.Assert(verifrt.LiveGoroutines() == 0, "no goroutine started for the run survives its return")
	verifrt.Assert(run.deploys == 0, "nothing was deployed")
}

// C14: two overlapping runs of one prepared workflow with different inputs do not see each other.
func VerifH_C14_concurrent() {
	t := verifChain2()
	for i := range t.steps {
		t.steps[i].outcome = map[string]int{"deploy": 0, "start": 0}
	}
	h := &vRunHolder{byG: map[int]*vRun{}}
	ew, _ := verifPrepareH(t, h)
	edges0 := verifEdges(ew.dag)
	runA, runB := newRun(), newRun()
	inA, inB := verifrt.NondetVal("inputA"), verifrt.NondetVal("inputB")
	var resB *vResult
	done := make(chan struct{})
	h.byG[verifrt.Gid()] = runA
	go func() {
		verifAtomicBind(h, verifrt.Gid(), runB)
		resB = verifExecute(ew, runB, t, inB)
		close(done)
	}()
	resA := verifExecute(ew, runA, t, inA)
	<-done
	verifCheck(t, runA, resA, verifNorm(inA), vCheckOpts{})
	verifCheck(t, runB, resB, verifNorm(inB), vCheckOpts{})
	a, b := verifDiff(edges0, verifEdges(ew.dag))
	verifrt.Assert(len(a) == 0 && len(b) == 0, "running a prepared workflow leaves its dependency graph untouched")
}

func verifAtomicBind(h *vRunHolder, gid int, r *vRun) { h.byG[gid] = r }

// C14: two overlapping runs of a workflow whose consumer joins two producers. Whatever one run files in its
// data model between the two producers of the other run, each consumer receives the values produced in its
// own run (a data model shared between runs shows as a foreign value).
func VerifH_C14_concurrent_join() {
	ok := map[string]int{"deploy": 0, "start": 0, "result": 0}
	t := tWorkflow{
		steps: []tStep{
			{id: "a", fields: map[string]any{"input": verifStepInput(vx("input"))}, outcome: ok},
			{id: "c", fields: map[string]any{"input": verifStepInput(vx("input"))}, outcome: ok},
			{id: "b", fields: map[string]any{"input": map[any]any{
				"x": vx("steps", "a", "outputs", "success", "v"),
				"y": vx("steps", "c", "outputs", "success", "v"),
			}}, outcome: ok},
		},
		outputs: map[string]any{"success": map[any]any{"r": vx("steps", "b", "outputs", "success", "v"), "a": vx("steps", "a", "outputs", "success", "v")}},
	}
	h := &vRunHolder{byG: map[int]*vRun{}}
	ew, _ := verifPrepareH(t, h)
	runA, runB := newRun(), newRun()
	inA, inB := verifrt.NondetVal("inputA"), verifrt.NondetVal("inputB")
	var resB *vResult
	done := make(chan struct{})
	h.byG[verifrt.Gid()] = runA
	go func() {
		verifAtomicBind(h, verifrt.Gid(), runB)
		resB = verifExecute(ew, runB, t, inB)
		close(done)
	}()
	resA := verifExecute(ew, runA, t, inA)
	<-done
	verifCheck(t, runA, resA, verifNorm(inA), vCheckOpts{})
	verifCheck(t, runB, resB, verifNorm(inB), vCheckOpts{})
}

// C15 (with C07): a wait-optional expression that cannot be evaluated on the value its source produced does
// not turn into "field absent": the source was produced, so the consumer either gets the field or the run
// ends with the evaluation error - the consumer is never started without it.
func VerifH_C15_optional_eval_error() {
	bad := vx("steps", "a", "outputs", "success", "v")
	bad.fail = true
	t := tWorkflow{
		steps: []tStep{
			{id: "a", fields: map[string]any{"input": verifStepInput(vx("input"))}, outcome: map[string]int{"deploy": 0, "start": 0}},
			{id: "b", fields: map[string]any{"input": map[any]any{
				"x": vx("input"),
				"w": &infer.OptionalExpression{Expr: bad, WaitForCompletion: true},
			}}, outcome: map[string]int{"deploy": 0, "start": 0, "result": 0}},
		},
		outputs: map[string]any{"success": map[any]any{"b": vx("steps", "b", "outputs", "success", "v")}},
	}
	ew, run := verifPrepare(t)
	res := verifExecute(ew, run, t, verifrt.NondetVal("input"))
	for _, h := range run.handovers {
		if h.step == "b" && h.stage == "starting" && run.emitted["a.outputs.success"] > 0 && run.emitted["a.outputs.success"] < h.seq {
			_, has := h.input["input"].(map[any]any)["w"]
			verifrt.Assert(has, "the source was produced before the consumer's input was built: the optional field is not silently left out")
		}
	}
	if run.produced("a", "outputs", "success") && res.err == nil && !res.stuck {
		verifrt.Reach("source-produced")
	}
	if res.err != nil {
		verifrt.Reach("error")
	}
}

// C15: one object with a required, a wait-optional and a soft-optional field.
func VerifH_C15_optional_fields() {
	ok := map[string]int{"deploy": 0, "start": 0}
	t := tWorkflow{
		steps: []tStep{
			{id: "a", fields: map[string]any{"input": verifStepInput(vx("input"))}, outcome: map[string]int{"deploy": 0, "start": 0, "result": 0}},
			{id: "c", fields: map[string]any{"input": verifStepInput(vx("input"))}, outcome: ok},
			{id: "b", fields: map[string]any{"input": map[any]any{
				"x": vx("steps", "a", "outputs", "success", "v"),
				"w": &infer.OptionalExpression{Expr: vx("steps", "c", "outputs", "success", "v"), WaitForCompletion: true},
			}}, outcome: map[string]int{"deploy": 0, "start": 0, "result": 0}},
			{id: "d", fields: map[string]any{"input": map[any]any{
				"x": vx("steps", "a", "outputs", "success", "v"),
				"s": &infer.OptionalExpression{Expr: vx("steps", "c", "outputs", "success", "v"), WaitForCompletion: false},
			}}, outcome: map[string]int{"deploy": 0, "start": 0, "result": 0}},
		},
		outputs: map[string]any{"success": map[any]any{"b": vx("steps", "b", "outputs", "success", "v"), "d": vx("steps", "d", "outputs", "success", "v")}},
	}
	ew, run := verifPrepare(t)
	in := verifrt.NondetVal("input")
	res := verifExecute(ew, run, t, in)
	verifCheck(t, run, res, verifNorm(in), vCheckOpts{})
	// a soft-optional field never delays its consumer: d starts although c never ends
	if c := run.steps["c"]; c != nil && c.never && res.stuck {
		verifrt.Reach("source-never-ends")
		started := false
		for _, h := range run.handovers {
			if h.step == "d" && h.stage == "starting" {
				started = true
			}
		}
		verifrt.Assert(started, "a soft-optional field never delays its consumer")
	}
}

// C15: optional fields whose expression has two sources (e.g. "a + c"): present exactly when both were produced.
func VerifH_C15_optional_two_sources() {
	two := func() *verifExpr {
		return vx2(vx("steps", "a", "outputs", "success", "v"), vx("steps", "c", "outputs", "success", "v"))
	}
	t := tWorkflow{
		steps: []tStep{
			{id: "a", fields: map[string]any{"input": verifStepInput(vx("input"))}, outcome: map[string]int{"deploy": 0, "start": 0}},
			{id: "c", fields: map[string]any{"input": verifStepInput(vx("input"))}, outcome: map[string]int{"deploy": 0, "start": 0}},
			{id: "b", fields: map[string]any{"input": map[any]any{
				"x": vx("input"),
				"w": &infer.OptionalExpression{Expr: two(), WaitForCompletion: true},
			}}, outcome: map[string]int{"deploy": 0, "start": 0, "result": 0}},
		},
		outputs: map[string]any{"success": map[any]any{
			"b": vx("steps", "b", "outputs", "success", "v"),
			"s": &infer.OptionalExpression{Expr: two(), WaitForCompletion: false},
		}},
	}
	ew, run := verifPrepare(t)
	in := verifrt.NondetVal("input")
	res := verifExecute(ew, run, t, in)
	verifCheck(t, run, res, verifNorm(in), vCheckOpts{})
}

// C07: a one-of whose alternatives are themselves optional values (so the selected alternative may resolve
// to nothing at run time) in a step input and in the workflow output: whatever the sources do, the run ends
// with an output or an error - the odd shape never crashes a step's goroutine.
func VerifH_C07_oneof_of_optionals() {
	alt := func() *infer.OneOfExpression {
		return &infer.OneOfExpression{Discriminator: "kind", Options: map[string]any{
			"good": &infer.OptionalExpression{Expr: vx("steps", "a", "outputs", "success"), WaitForCompletion: true},
			"bad":  &infer.OptionalExpression{Expr: vx("steps", "a", "outputs", "error"), WaitForCompletion: true},
		}}
	}
	t := tWorkflow{
		steps: []tStep{
			{id: "a", fields: map[string]any{"input": verifStepInput(vx("input"))}, outcome: map[string]int{"deploy": 0}},
			{id: "b", fields: map[string]any{"input": map[any]any{"x": alt()}}, outcome: map[string]int{"deploy": 0, "start": 0, "result": 0}},
		},
		outputs: map[string]any{"success": map[any]any{"o": alt()}},
	}
	ew, run := verifPrepare(t)
	res := verifExecute(ew, run, t, verifrt.NondetVal("input"))
	if a := run.steps["a"]; res.stuck && a != nil && a.never {
		return // the source never ends: waiting for it is what a wait-optional value asks for
	}
	verifrt.Assert(!res.stuck, "the run returns")
	verifrt.Assert((res.err == nil) != (res.id == ""), "Execute returns either an output or an error, never both or neither")
	if res.err != nil {
		verifrt.Reach("error")
	}
}

// C15: a wait-optional field inside the object of a one-of alternative (tags nested in one another).
func VerifH_C15_optional_in_oneof() {
	t := tWorkflow{
		steps: []tStep{
			{id: "a", fields: map[string]any{"input": verifStepInput(vx("input"))}, outcome: map[string]int{"deploy": 0, "start": 0}},
			{id: "c", fields: map[string]any{"input": verifStepInput(vx("input"))}, outcome: map[string]int{"deploy": 0, "start": 0}},
			{id: "b", fields: map[string]any{
				"input": map[any]any{"x": &infer.OneOfExpression{Discriminator: "kind", Options: map[string]any{
					"good": map[any]any{
						"v": vx("steps", "a", "outputs", "success", "v"),
						"w": &infer.OptionalExpression{Expr: vx("steps", "c", "outputs", "success", "v"), WaitForCompletion: true},
					},
					"bad": map[any]any{"v": vx("steps", "a", "outputs", "error", "v")},
				}}},
			}, outcome: map[string]int{"deploy": 0, "start": 0, "result": 0}},
		},
		outputs: map[string]any{"success": map[any]any{"b": vx("steps", "b", "outputs", "success", "v")}},
	}
	ew, run := verifPrepare(t)
	in := verifrt.NondetVal("input")
	res := verifExecute(ew, run, t, in)
	verifCheck(t, run, res, verifNorm(in), vCheckOpts{})
}

// C15: one-of in a step input and or-disabled (a one-of over enabled/disabled) in the workflow output.
func VerifH_C15_oneof_ordisabled() {
	t := tWorkflow{
		steps: []tStep{
			{id: "a", fields: map[string]any{"input": verifStepInput(vx("input"))}, outcome: map[string]int{"deploy": 0, "start": 0}},
			{id: "b", fields: map[string]any{
				"input": map[any]any{"x": &infer.OneOfExpression{Discriminator: "kind", Options: map[string]any{
					"good": map[any]any{"v": vx("steps", "a", "outputs", "success", "v")},
					"bad":  map[any]any{"v": vx("steps", "a", "outputs", "error", "v")},
				}}},
				"enabled": &infer.OptionalExpression{Expr: vx("steps", "a", "outputs", "success", "flag"), WaitForCompletion: true},
			}, outcome: map[string]int{"deploy": 0, "start": 0, "result": 0}},
		},
		outputs: map[string]any{"success": map[any]any{"res": &infer.OneOfExpression{Discriminator: "result", Options: map[string]any{
			"enabled":  map[any]any{"r": vx("steps", "b", "outputs", "success", "v")},
			"disabled": map[any]any{"m": vx("steps", "b", "disabled", "output", "message")},
		}}}},
	}
	ew, run := verifPrepare(t)
	in := verifrt.NondetVal("input")
	res := verifExecute(ew, run, t, in)
	verifCheck(t, run, res, verifNorm(in), vCheckOpts{})
	if res.err == nil {
		m := res.data.(map[any]any)["res"].(map[any]any)
		if run.produced("b", "disabled", "output") {
			verifrt.Assert(m["result"] == any("disabled"), "or-disabled yields the disabled message if the step was disabled")
		} else {
			verifrt.Assert(m["result"] == any("enabled"), "or-disabled yields the step's result if it ran")
		}
	}
}

// C02: a step input built from an expression with two references, one of which duplicates a
// dependency the stage already has: the step starts only after BOTH producers.
func VerifH_C02_multi_reference() {
	dup := vx("steps", "a", "outputs", "success", "v")
	other := vx("steps", "c", "outputs", "success", "v")
	ok := map[string]int{"deploy": 0, "start": 0, "result": 0}
	t := tWorkflow{
		steps: []tStep{
			{id: "a", fields: map[string]any{"input": verifStepInput(vx("input"))}, outcome: ok},
			{id: "c", fields: map[string]any{"input": verifStepInput(vx("input"))}, outcome: map[string]int{"deploy": 0, "start": 0}},
			{id: "b", fields: map[string]any{"input": map[any]any{"x": []any{vx("steps", "a", "outputs", "success", "flag"), vx2(dup, other)}}}, outcome: ok},
		},
		outputs: map[string]any{"success": map[any]any{"r": vx("steps", "b", "outputs", "success", "v")}},
	}
	ew, run := verifPrepare(t)
	in := verifrt.NondetVal("input")
	res := verifExecute(ew, run, t, in)
	verifCheck(t, run, res, verifNorm(in), vCheckOpts{})
}

// C07: an evaluation failure that happens AFTER the workflow output was already produced (a second
// output, or a step input, that becomes ready later) still must not crash.
func VerifH_C07_failure_after_output() {
	bad := vx("steps", "c", "outputs", "success", "v")
	bad.fail = true
	bad2 := vx("steps", "c", "outputs", "success", "v")
	bad2.fail = true
	t := tWorkflow{
		steps: []tStep{
			{id: "a", fields: map[string]any{"input": verifStepInput(vx("input"))}, outcome: map[string]int{"deploy": 0, "start": 0, "result": 0}},
			{id: "c", fields: map[string]any{"input": verifStepInput(vx("input"))}, outcome: map[string]int{"deploy": 0, "start": 0}},
			{id: "d", fields: map[string]any{"input": verifStepInput(bad2)}, outcome: map[string]int{"deploy": 0, "start": 0, "result": 0}},
		},
		outputs: map[string]any{
			"success": map[any]any{"r": vx("steps", "a", "outputs", "success", "v")},
			"other":   map[any]any{"x": bad},
		},
	}
	ew, run := verifPrepare(t)
	in := verifrt.NondetVal("input")
	res := verifExecute(ew, run, t, in)
	verifrt.Assert((res.err == nil) != (res.id == ""), "Execute returns either an output or an error, never both or neither")
	if res.err == nil {
		verifrt.Reach("output-first")
	}
	verifrt.Settle()
	if run.produced("c", "outputs", "success") && run.produced("a", "outputs", "success") {
		verifrt.Reach("failure-after-output")
	}
	verifrt.Assert(verifrt.LiveGoroutines() == 0, "no goroutine started for the run survives its return")
}

// C03: three declared outputs; the first has two dependencies that settle at different moments, the
// second fails in between, the third becomes producible last and must be the one returned.
func VerifH_C03_three_outputs() {
	sure := map[string]int{"deploy": 0, "start": 0, "result": 0}
	t := tWorkflow{
		steps: []tStep{
			{id: "p", fields: map[string]any{"input": verifStepInput(vx("input"))}, outcome: map[string]int{"start": 0, "result": 0}},
			{id: "q", fields: map[string]any{"input": verifStepInput(vx("input"))}, outcome: map[string]int{"start": 0, "result": 0}},
			{id: "r", fields: map[string]any{"input": verifStepInput(vx("input"))}, outcome: map[string]int{"start": 0, "result": 0}},
			{id: "s", fields: map[string]any{"input": verifStepInput(vx("input")), "wait_for": vx("steps", "r", "enabling")}, outcome: sure},
		},
		outputs: map[string]any{
			"all-ok":    map[any]any{"p": vx("steps", "p", "outputs", "success", "v"), "r": vx("steps", "r", "outputs", "success", "v")},
			"second-ok": map[any]any{"q": vx("steps", "q", "outputs", "success", "v")},
			"fallback":  map[any]any{"s": vx("steps", "s", "outputs", "success", "v")},
		},
	}
	ew, run := verifPrepare(t)
	in := verifrt.NondetVal("input")
	res := verifExecute(ew, run, t, in)
	verifCheck(t, run, res, verifNorm(in), vCheckOpts{})
	if res.err == nil && res.id == "fallback" {
		verifrt.Reach("fallback")
	}
}

// C01: one producer feeding N consumers whose input expressions all fail at run time (they become
// ready through the same event): the run ends with an error, whatever N.
func VerifH_C01_fan_out_eval_errors() {
	n := verifrt.Param("N", 3)
	t := tWorkflow{outputs: map[string]any{}}
	t.steps = append(t.steps, tStep{id: "src", fields: map[string]any{"input": verifStepInput(vx("input"))}, outcome: map[string]int{"deploy": 0, "start": 0, "result": 0}})
	out := map[any]any{}
	for i := 0; i < n; i++ {
		id := "c" + string(rune('a'+i/26)) + string(rune('a'+i%26))
		bad := vx("steps", "src", "outputs", "success", "v")
		bad.fail = true
		t.steps = append(t.steps, tStep{id: id, fields: map[string]any{"input": verifStepInput(bad)}, outcome: map[string]int{"deploy": 0, "start": 0, "result": 0}})
		out[id] = vx("steps", id, "outputs", "success", "v")
	}
	t.outputs["success"] = out
	ew, run := verifPrepare(t)
	in := verifrt.NondetVal("input")
	res := verifExecute(ew, run, t, in)
	verifrt.Assert(!res.stuck, "Execute returns once all steps have finished, failed or been closed")
	verifrt.Assert(res.err != nil && res.id == "", "failing run-time evaluations end the run with an error")
	verifrt.Reach("error")
	verifrt.Settle()
	verifrt.Assert(verifrt.LiveGoroutines() == 0, "no goroutine started for the run survives its return")
}
