//go:build verif

package workflow

// Environment for the run loop (Execute / loopState / dgraph): abstract steps
// that follow the lifecycle contract L of the plugin provider, stub
// expressions, stub schemas, workflow templates built by the real preparation
// code. Everything here is harness code and part of the verification claim.

import (
	"fmt"
	"strings"
	"sync"

	"go.arcalot.io/log/v2"
	"go.flow.arcalot.io/engine/config"
	"go.flow.arcalot.io/engine/internal/step"
	"go.flow.arcalot.io/engine/internal/step/plugin"
	"go.flow.arcalot.io/engine/internal/verifrt"
	"go.flow.arcalot.io/expressions"
	"go.flow.arcalot.io/pluginsdk/schema"
)

type vLogger struct{}

func (vLogger) Debugf(format string, args ...interface{})                 {}
func (vLogger) Infof(format string, args ...interface{})                  {}
func (vLogger) Warningf(format string, args ...interface{})               {}
func (vLogger) Errorf(format string, args ...interface{})                 {}
func (vLogger) Writef(level log.Level, format string, args ...interface{}) {}
func (vLogger) WithLabel(name string, value string) log.Logger            { return vLogger{} }

// ---------------------------------------------------------------------------
// stub expression: a path into the data model

type verifExpr struct {
	also []*verifExpr // further references of the same expression (e.g. "a + b"); the value is that of path
	path []any // without the leading "$": e.g. {"steps","a","outputs","success","v"} or {"input","x"}
	fail bool  // evaluation fails at run time although the dependency was produced
	id   string
}

func vx(path ...any) *verifExpr { return &verifExpr{path: path, id: fmt.Sprint(path...)} }

func (e *verifExpr) Type(s schema.Scope, f map[string]schema.Function, c map[string][]byte) (schema.Type, error) {
	if len(e.path) == 4 && e.path[0] == "steps" {
		// a whole stage output ($.steps.x.stage.output) is an object (needed where an object is required,
		// e.g. as an alternative of a one-of); everything else is of any type
		return schema.NewObjectSchema("out_"+e.id, map[string]*schema.PropertySchema{}), nil
	}
	return schema.NewAnySchema(), nil
}

func (e *verifExpr) Dependencies(s schema.Type, f map[string]schema.Function, c map[string][]byte, r expressions.UnpackRequirements) ([]expressions.Path, error) {
	var res []expressions.Path
	for _, x := range append([]*verifExpr{e}, e.also...) {
		p := expressions.Path{"$"}
		for i, it := range x.path {
			if i >= 4 { // StopAtTerminals: the DAG only needs step.stage.output
				break
			}
			p = append(p, it)
		}
		res = append(res, p)
	}
	return res, nil
}

// vx2 is an expression with several references ("a + b"): it depends on all, its value is the first's.
func vx2(first *verifExpr, more ...*verifExpr) *verifExpr {
	return &verifExpr{path: first.path, id: first.id + "+", also: more}
}

func (e *verifExpr) Evaluate(data any, f map[string]schema.CallableFunction, c map[string][]byte) (any, error) {
	if e.fail {
		return nil, &verifrt.Err{Msg: "evaluation failed: " + e.id}
	}
	for _, x := range e.also {
		if _, err := x.Evaluate(data, f, c); err != nil {
			return nil, err
		}
	}
	cur := data
	for _, k := range e.path {
		switch m := cur.(type) {
		case map[string]any:
			v, ok := m[k.(string)]
			if !ok {
				verifrt.Assert(false, "an expression is evaluated only after the values it refers to were produced")
				return nil, &verifrt.Err{Msg: "missing key in data model: " + e.id}
			}
			cur = v
		case map[any]any:
			v, ok := m[k]
			if !ok {
				verifrt.Assert(false, "an expression is evaluated only after the values it refers to were produced")
				return nil, &verifrt.Err{Msg: "missing key in data model: " + e.id}
			}
			cur = v
		default:
			return nil, &verifrt.Err{Msg: "cannot index value in data model: " + e.id}
		}
	}
	return cur, nil
}

func (e *verifExpr) String() string { return "$." + e.id }

// redirect target for (expressions.Path).String
func verifPathString(p expressions.Path) string {
	items := make([]string, len(p))
	for i, item := range p {
		items[i] = fmt.Sprintf("%v", item)
	}
	return strings.Join(items, ".")
}

// ---------------------------------------------------------------------------
// stub schemas

type vScope struct {
	seen     any  // the document the schema was last asked to judge
	sawInput bool
	schema.Scope
	invalid  bool
	serFails bool
}

func (s *vScope) Unserialize(data any) (any, error) {
	s.seen, s.sawInput = data, true
	if s.invalid {
		return nil, &verifrt.Err{Msg: "invalid input"}
	}
	if v, ok := data.(verifrt.Val); ok {
		return verifrt.UF("U", v), nil
	}
	if m, ok := data.(map[string]any); ok {
		// an input document that is an object: every field is normalised
		r := make(map[string]any, len(m))
		for k, x := range m {
			if v, ok := x.(verifrt.Val); ok {
				r[k] = verifrt.UF("U", v)
			} else {
				r[k] = x
			}
		}
		return r, nil
	}
	return data, nil
}

// RootObject: the stub input scope declares no properties of its own (its verdicts are choices).
func (s *vScope) RootObject() *schema.ObjectSchema {
	return schema.NewObjectSchema("input", map[string]*schema.PropertySchema{})
}

func (s *vScope) Serialize(data any) (any, error) {
	if s.serFails {
		return nil, &verifrt.Err{Msg: "cannot serialize"}
	}
	if v, ok := data.(verifrt.Val); ok {
		return verifrt.UF("S", v), nil
	}
	if m, ok := data.(map[string]any); ok {
		r := make(map[string]any, len(m))
		for k, x := range m {
			if v, ok := x.(verifrt.Val); ok {
				r[k] = verifrt.UF("S", v)
			} else {
				r[k] = x
			}
		}
		return r, nil
	}
	return data, nil
}

// redirect targets: validation of stage inputs / workflow outputs succeeds (type soundness is C08's subject)
var verifRejectStageInput, verifRejectOutput bool
var verifValidated, verifOutputValidated int

// verifInPrepare: while the real Prepare runs, (*ObjectSchema).Unserialize is the conversion of step
// configuration maps (zz_verif_prep.go); at run time it is the validation of a stage input.
var verifInPrepare int

func verifObjectUnserialize(o *schema.ObjectSchema, data any) (any, error) {
	if verifInPrepare > 0 {
		return verifObjectUnserializeP(o, data)
	}
	verifValidated++
	if verifRejectStageInput {
		return nil, &verifrt.Err{Msg: "stage input does not match its schema"}
	}
	return data, nil
}
func verifStepOutputUnserialize(o *schema.StepOutputSchema, data any) (any, error) {
	verifOutputValidated++
	if verifRejectOutput {
		return nil, &verifrt.Err{Msg: "output does not match its schema"}
	}
	return data, nil
}

// ---------------------------------------------------------------------------
// lifecycle data of the plugin provider (stage ids, input fields, next stages are read from the real
// plugin package through its exported provider; outputs per stage are listed here and cross-checked
// against runnableStep.Lifecycle in the plugin-package harness VerifH_C12_lifecycle_table).

var verifStageOutputs = map[string][]string{
	"deploy_failed": {"error"},
	"enabling":      {"resolved"},
	"starting":      {"started"},
	"disabled":      {"output"},
	"outputs":       {"success", "error"},
	"crashed":       {"error"},
	"closed":        {"result"},
}

func verifEmptyScope(id string) *schema.ScopeSchema {
	return schema.NewScopeSchema(schema.NewObjectSchema(id, map[string]*schema.PropertySchema{}))
}

func verifLifecycle(base step.Lifecycle[step.LifecycleStage]) step.Lifecycle[step.LifecycleStageWithSchema] {
	res := step.Lifecycle[step.LifecycleStageWithSchema]{InitialStage: base.InitialStage}
	for _, st := range base.Stages {
		ws := step.LifecycleStageWithSchema{LifecycleStage: st, InputSchema: map[string]*schema.PropertySchema{}, Outputs: map[string]*schema.StepOutputSchema{}}
		for f := range st.InputFields {
			ws.InputSchema[f] = schema.NewPropertySchema(schema.NewAnySchema(), nil, false, nil, nil, nil, nil, nil)
		}
		for _, o := range verifStageOutputs[st.ID] {
			ws.Outputs[o] = schema.NewStepOutputSchema(verifEmptyScope(o), nil, o == "error")
		}
		res.Stages = append(res.Stages, ws)
	}
	return res
}

// ---------------------------------------------------------------------------
// abstract step: generates exactly the notification sequences of contract L

type vRun struct {
	steps     map[string]*vStep
	order     []string
	seq       int
	handovers []vHandover
	emitted   map[string]int // "step.stage.output" -> sequence number of emission
	emittedV  map[string]any
	deploys   int
	executing int
	cancelAt  int // cancel the caller's context when the event counter reaches this value (0 = never)
	cancel    func()
	cancelT   int64
	cancelled bool
}

type vHandover struct {
	seq   int
	step  string
	stage string
	input map[string]any
}

type vStep struct {
	closeSeen bool
	run       *vRun
	id        string
	h         step.StageChangeHandler
	wg        sync.WaitGroup
	inputs    map[string]chan map[string]any
	given     map[string]bool
	done      chan struct{}
	closeReq  bool
	stopReq   bool
	finished  chan struct{}
	state     step.RunningStepState
	stage     string
	waitingOn string
	outcome   map[string]int // scripted outcome, -1 = choose when reached
	executed  bool
	result    string
	never     bool
	finishedSeq int
	preempted bool // closed before it could finish
}

// vRunHolder selects the vRun a Start call belongs to when one prepared workflow is executed several times.
type vRunHolder struct {
	cur *vRun
	byG map[int]*vRun
}

func verifAtomicPick(h *vRunHolder, gid int) *vRun {
	if r, ok := h.byG[gid]; ok {
		return r
	}
	return h.cur
}

func newRun() *vRun {
	return &vRun{steps: map[string]*vStep{}, emitted: map[string]int{}, emittedV: map[string]any{}}
}

type vRunnable struct {
	holder  *vRunHolder
	run     *vRun
	id      string
	life    step.Lifecycle[step.LifecycleStageWithSchema]
	outcome map[string]int
}

func (r *vRunnable) Lifecycle(input map[string]any) (step.Lifecycle[step.LifecycleStageWithSchema], error) {
	return r.life, nil
}
func (r *vRunnable) RunSchema() map[string]*schema.PropertySchema { return nil }
func (r *vRunnable) Start(input map[string]any, runID string, h step.StageChangeHandler) (step.RunningStep, error) {
	if r.outcome["start-fails"] == 1 {
		return nil, &verifrt.Err{Msg: "the step cannot be started"}
	}
	run := r.run
	if r.holder != nil {
		run = verifAtomicPick(r.holder, verifrt.Gid())
	}
	s := &vStep{run: run, id: r.id, h: h, done: make(chan struct{}), finished: make(chan struct{}),
		inputs: map[string]chan map[string]any{"deploy": make(chan map[string]any, 1), "enabling": make(chan map[string]any, 1), "starting": make(chan map[string]any, 1)},
		given:  map[string]bool{}, state: step.RunningStepStateStarting, stage: "deploy", outcome: r.outcome}
	verifAtomicRegister(run, s)
	go s.life()
	return s, nil
}

func verifAtomicRegister(run *vRun, s *vStep) { run.steps[s.id] = s }

func (s *vStep) CurrentStage() string          { return verifAtomicStage(s) }
func (s *vStep) State() step.RunningStepState  { return verifAtomicState(s) }
func verifAtomicStage(s *vStep) string         { return s.stage }
func verifAtomicState(s *vStep) step.RunningStepState { return s.state }

func verifAtomicProvide(s *vStep, stage string, input map[string]any) (ch chan map[string]any, err error) {
	s.run.seq++
	verifAtomicTick(s.run)
	s.run.handovers = append(s.run.handovers, vHandover{seq: s.run.seq, step: s.id, stage: stage, input: input})
	switch stage {
	case "deploy", "enabling", "starting":
		if s.given[stage] {
			return nil, &verifrt.Err{Msg: stage + " input provided more than once"}
		}
		s.given[stage] = true
		if s.waitingOn == stage {
			s.state = step.RunningStepStateRunning
		}
		return s.inputs[stage], nil
	case "cancelled":
		if v, ok := input["stop_if"]; ok && v != nil && v != false {
			if !s.stopReq && !s.closeReq {
				s.stopReq = true
				close(s.done)
			}
		}
	}
	return nil, nil
}

func (s *vStep) ProvideStageInput(stage string, input map[string]any) error {
	ch, err := verifAtomicProvide(s, stage, input)
	if err != nil {
		return err
	}
	if ch != nil {
		ch <- input // capacity 1 and once-only: never blocks
	}
	return nil
}

func verifAtomicCloseReq(s *vStep) {
	if !s.closeReq && !s.stopReq {
		close(s.done)
	}
	s.closeReq = true
}

func (s *vStep) ForceClose() error {
	verifrt.Yield("ForceClose")
	if s.outcome["slow-close"] == 1 && verifAtomicFirstClose(s) {
		<-verifrt.TimerChan(6000000000) // closing this step takes 6 s (a deployment that cannot be interrupted)
	}
	verifAtomicCloseReq(s)
	<-s.finished
	s.wg.Wait()
	return nil
}
func (s *vStep) Close() error { return s.ForceClose() }

func verifAtomicFirstClose(s *vStep) bool {
	first := !s.closeSeen
	s.closeSeen = true
	return first
}

func verifAtomicSet(s *vStep, stage string, st step.RunningStepState, waitingOn string) {
	if stage != "" {
		s.stage = stage
	}
	s.state = st
	s.waitingOn = waitingOn
}

func verifAtomicTick(r *vRun) {
	if r.cancelAt > 0 && r.seq == r.cancelAt && r.cancel != nil && !r.cancelled {
		r.cancelled = true
		r.cancelT = verifrt.Now()
		r.cancel()
	}
}

func verifAtomicEmit(s *vStep, stage, out string, data any) {
	s.run.seq++
	verifAtomicTick(s.run)
	s.run.emitted[s.id+"."+stage+"."+out] = s.run.seq
	s.run.emittedV[s.id+"."+stage+"."+out] = data
}

func sp(s string) *string { return &s }

// change: previous stage finished (with optional output) and the step enters stage next.
func (s *vStep) change(prev, out string, data any, next string, st step.RunningStepState) {
	verifAtomicSet(s, next, st, "")
	if out != "" {
		verifAtomicEmit(s, prev, out, data)
		s.h.OnStageChange(s, &prev, &out, &data, next, false, &s.wg)
	} else {
		s.h.OnStageChange(s, &prev, nil, nil, next, false, &s.wg)
	}
}

// A step counts as finished (for "evaluated only after its source has finished one way or the other") from
// the moment its fate is sealed: its first end-of-life declaration, or its completion.
func verifAtomicFinished(s *vStep) {
	if s.finishedSeq == 0 {
		s.finishedSeq = s.run.seq
	}
}

func (s *vStep) complete(stage, out string, data any) {
	verifAtomicSet(s, stage, step.RunningStepStateFinished, "")
	verifAtomicEmit(s, stage, out, data)
	verifAtomicFinished(s)
	s.h.OnStepComplete(s, stage, &out, &data, &s.wg)
}

func (s *vStep) fail(stages ...string) {
	verifAtomicFinished(s) // all declarations of an abstract step belong to its ending
	for _, st := range stages {
		s.h.OnStepStageFailure(s, st, &s.wg, &verifrt.Err{Msg: "stage will not happen"})
	}
}

// await waits for the input of a stage or for a close request.
func (s *vStep) await(stage string) (map[string]any, bool) {
	verifAtomicAwait(s, stage)
	select { // like the real provider: input that is already there wins over a close request
	case in := <-s.inputs[stage]:
		verifAtomicSet(s, "", step.RunningStepStateRunning, "")
		return in, true
	default:
	}
	select {
	case in := <-s.inputs[stage]:
		verifAtomicSet(s, "", step.RunningStepStateRunning, "")
		return in, true
	case <-s.done:
		verifAtomicPreempted(s)
		return nil, false
	}
}

func verifAtomicPreempted(s *vStep) { s.preempted = true }

func verifAtomicAwait(s *vStep, stage string) {
	if s.given[stage] {
		s.state = step.RunningStepStateRunning
	} else {
		s.state = step.RunningStepStateWaitingForInput
		s.waitingOn = stage
	}
}

func (s *vStep) pick(name string, n int) int {
	if v, ok := s.outcome[name]; ok && v >= 0 {
		return v
	}
	return verifrt.Choice(s.id+":"+name, n)
}

func (s *vStep) closedResult() any {
	return map[any]any{"cancelled": verifAtomicStop(s), "close_requested": verifAtomicClosed(s)}
}
func verifAtomicStop(s *vStep) bool   { return s.stopReq }
func verifAtomicClosed(s *vStep) bool { return s.closeReq }

// life is the goroutine of an abstract step; every branch is a path of contract L (the stages that will not
// happen are declared before the completion is reported, as the provider monitors of C12/C13 demand).
func (s *vStep) life() {
	defer close(s.finished)
	verifAtomicSet(s, "deploy", step.RunningStepStateRunning, "")
	s.h.OnStageChange(s, nil, nil, nil, "deploy", verifAtomicGiven(s, "deploy"), &s.wg)
	if _, ok := s.await("deploy"); !ok {
		s.fail("deploy")
		verifAtomicSet(s, "closed", step.RunningStepStateRunning, "")
		s.fail("enabling", "disabled", "starting", "running", "outputs")
		s.fail("deploy_failed", "crashed")
		s.complete("closed", "result", s.closedResult())
		return
	}
	verifAtomicCount(s.run, 1, 0)
	if s.pick("deploy", 2) == 1 {
		s.change("deploy", "", nil, "deploy_failed", step.RunningStepStateRunning)
		s.fail("enabling", "disabled", "starting", "running", "outputs")
		s.fail("closed")
		s.fail("crashed")
		s.complete("deploy_failed", "error", map[any]any{"error": "deployment failed"})
		return
	}
	s.change("deploy", "", nil, "enabling", step.RunningStepStateWaitingForInput)
	in, ok := s.await("enabling")
	if !ok {
		s.fail("enabling")
		verifAtomicSet(s, "closed", step.RunningStepStateRunning, "")
		s.fail("starting", "running", "outputs")
		s.fail("disabled", "deploy_failed", "crashed")
		s.complete("closed", "result", s.closedResult())
		return
	}
	if !(in["enabled"] == nil || in["enabled"] == true) {
		s.change("enabling", "resolved", map[any]any{"enabled": false}, "disabled", step.RunningStepStateRunning)
		s.fail("starting", "running", "outputs")
		s.fail("closed")
		s.fail("deploy_failed", "crashed")
		s.complete("disabled", "output", map[any]any{"message": "disabled"})
		return
	}
	s.change("enabling", "resolved", map[any]any{"enabled": true}, "starting", step.RunningStepStateWaitingForInput)
	if _, ok = s.await("starting"); !ok {
		s.fail("starting")
		verifAtomicSet(s, "closed", step.RunningStepStateRunning, "")
		s.fail("running", "outputs")
		s.fail("disabled", "deploy_failed", "crashed")
		s.complete("closed", "result", s.closedResult())
		return
	}
	if s.pick("start", 2) == 1 {
		s.fail("starting")
		verifAtomicSet(s, "crashed", step.RunningStepStateRunning, "")
		s.fail("running", "outputs")
		s.fail("closed")
		s.fail("deploy_failed", "disabled")
		s.complete("crashed", "error", map[any]any{"output": "start failed"})
		return
	}
	verifAtomicExec(s, true)
	s.change("starting", "started", map[any]any{}, "running", step.RunningStepStateRunning)
	res := s.pick("result", 4) // 0 success, 1 error output, 2 crash, 3 runs until closed/stopped
	if res == 3 {
		verifAtomicNever(s)
		<-s.done
		verifAtomicPreempted(s)
		res = s.pick("result-after-stop", 3)
	}
	verifAtomicExec(s, false)
	switch res {
	case 0:
		s.change("running", "", nil, "outputs", step.RunningStepStateRunning)
		if s.outcome["undeclared"] == 1 {
			// a misbehaving step: it ends with an output id its lifecycle does not declare
			s.fail("deploy_failed", "disabled", "crashed", "closed")
			s.complete("outputs", "surprise", map[any]any{"v": verifrt.NondetVal("out." + s.id)})
			return
		}
		s.fail("deploy_failed", "disabled", "crashed", "closed")
		s.complete("outputs", "success", map[any]any{"v": verifrt.NondetVal("out." + s.id), "flag": verifrt.NondetBool("flag." + s.id)})
	case 1:
		s.change("running", "", nil, "outputs", step.RunningStepStateRunning)
		s.fail("deploy_failed", "disabled", "crashed", "closed")
		s.complete("outputs", "error", map[any]any{"v": verifrt.NondetVal("err." + s.id)})
	default:
		s.change("running", "", nil, "crashed", step.RunningStepStateRunning)
		s.fail("outputs")
		s.fail("closed")
		s.fail("deploy_failed", "disabled")
		s.complete("crashed", "error", map[any]any{"output": "crashed"})
	}
}

func verifAtomicGiven(s *vStep, stage string) bool { return s.given[stage] }
func verifAtomicNever(s *vStep)                    { s.never = true }
func verifAtomicCount(r *vRun, d, x int)           { r.deploys += d }
func verifAtomicExec(s *vStep, on bool) {
	if on {
		s.executed = true
		s.run.executing++
	} else {
		s.run.executing--
	}
}

// ---------------------------------------------------------------------------
// workflow templates, prepared by the real preparation code

type tStep struct {
	id      string
	fields  map[string]any // stage input field -> data (may contain *verifExpr, *infer.* expressions)
	outcome map[string]int
}

type tWorkflow struct {
	steps   []tStep
	outputs map[string]any
}

// verifPluginBase is the exported lifecycle of the real plugin provider (stage ids, input fields, next stages).
func verifPluginBase() step.Lifecycle[step.LifecycleStage] {
	p, err := plugin.New(vLogger{}, nil, nil)
	verifrt.Assert(err == nil, "harness: plugin provider created")
	return p.Lifecycle()
}

func verifPrepare(t tWorkflow) (*executableWorkflow, *vRun) {
	return verifPrepareH(t, nil)
}

func verifPrepareH(t tWorkflow, holder *vRunHolder) (*executableWorkflow, *vRun) {
	run := newRun()
	base := verifPluginBase()
	prov := &vProvider{run: run, holder: holder, base: base, life: verifLifecycle(base), outcomes: map[string]map[string]int{}}
	for _, ts := range t.steps {
		prov.outcomes[ts.id] = ts.outcome
		run.order = append(run.order, ts.id)
	}
	e := &executor{logger: vLogger{}, config: verifConfig(), stepRegistry: &vRegistry{p: prov}}
	return verifRealPrepare(e, verifWorkflow(t)), run
}

// verifConfig: the engine configuration of the run-loop harnesses. Step outputs with the usual ids are
// logged (to the no-op logger) so that the run loop's logging branch of onStageComplete is executed.
func verifConfig() *config.Config {
	lvl := &config.StepOutputLogConfig{LogLevel: log.LevelInfo}
	return &config.Config{LoggedOutputConfigs: map[string]*config.StepOutputLogConfig{"success": lvl, "error": lvl, "resolved": lvl}}
}

// verifRealPrepare runs the REAL (*executor).Prepare on a template (stub registry / providers, stub
// schema typing): the prepared workflow the run-loop harnesses execute is the one Prepare returns, not a
// hand-made copy of its fields.
func verifRealPrepare(e *executor, wf *Workflow) *executableWorkflow {
	plugin.VerifScopeHook = func(data any) (any, error) { return &vScope{}, nil }
	verifInPrepare++
	res, err := e.Prepare(wf, nil)
	verifInPrepare--
	if err != nil {
		verifrt.Event("Prepare: " + err.Error())
	}
	verifrt.Assert(err == nil, "harness: the template is accepted by Prepare")
	if err != nil {
		verifrt.Assume(false)
	}
	ew, ok := res.(*executableWorkflow)
	verifrt.Assert(ok, "harness: Prepare returns the engine's prepared workflow")
	return ew
}
