//go:build verif

package workflow

// Harnesses that run the real (*executor).Prepare end to end (C10, C16) with a stub step registry
// and provider; schema validation/unserialisation is stubbed, everything about the DAG is real.

import (
	"sort"
	"strings"

	"go.arcalot.io/dgraph"
	"go.flow.arcalot.io/engine/config"
	"go.flow.arcalot.io/engine/internal/infer"
	"go.flow.arcalot.io/engine/internal/step"
	"go.flow.arcalot.io/engine/internal/verifrt"
	"go.flow.arcalot.io/pluginsdk/schema"
)

// methods of the stub input scope that Prepare needs
func (s *vScope) ApplySelf()                                                      {}
func (s *vScope) ApplyNamespace(objects map[string]*schema.ObjectSchema, ns string) {}
func (s *vScope) ValidateReferences() error                                        { return nil }

// redirect targets
func verifScopeUnserializeP(s *schema.ScopeSchema, data any) (any, error) { return &vScope{}, nil }

var verifCompatFails bool

// verifCompatProp: when set, only the compatibility check of this property (one field of one stage) fails.
var verifCompatProp *schema.PropertySchema

func verifCompat(p *schema.PropertySchema, t any) error {
	if verifCompatFails && (verifCompatProp == nil || verifCompatProp == p) {
		return &verifrt.Err{Msg: "incompatible type"}
	}
	return nil
}

var verifObjCounter int

func verifObjectID(purpose string) string {
	verifObjCounter++
	return purpose + "_" + string(rune('a'+verifObjCounter%26))
}

// verifObjectUnserializeP replaces (*ObjectSchema).Unserialize for step configuration maps.
func verifObjectUnserializeP(o *schema.ObjectSchema, data any) (any, error) {
	if m, ok := data.(map[any]any); ok {
		r := map[string]any{}
		for k, v := range m {
			ks, ok := k.(string)
			if !ok {
				return nil, &verifrt.Err{Msg: "non-string key"}
			}
			r[ks] = v
		}
		return r, nil
	}
	return data, nil
}

type vRegistry struct {
	step.Registry
	p step.Provider
}

func (r *vRegistry) GetByKind(kind string) (step.Provider, error) {
	if kind == "plugin" {
		return r.p, nil
	}
	return nil, &verifrt.Err{Msg: "unknown kind " + kind}
}

type vProvider struct {
	run      *vRun
	holder   *vRunHolder
	base     step.Lifecycle[step.LifecycleStage]
	life     step.Lifecycle[step.LifecycleStageWithSchema]
	outcomes map[string]map[string]int // per step id: scripted outcomes of the abstract step
}

func (p *vProvider) Kind() string                                 { return "plugin" }
func (p *vProvider) Lifecycle() step.Lifecycle[step.LifecycleStage] { return p.base }
func (p *vProvider) ProviderSchema() map[string]*schema.PropertySchema {
	return map[string]*schema.PropertySchema{"plugin": schema.NewPropertySchema(schema.NewAnySchema(), nil, true, nil, nil, nil, nil, nil)}
}
func (p *vProvider) RunProperties() map[string]struct{} { return map[string]struct{}{"step": {}} }
func (p *vProvider) LoadSchema(inputs map[string]any, ctx map[string][]byte) (step.RunnableStep, error) {
	id := verifStepIDOf(inputs)
	return &vRunnable{holder: p.holder, run: p.run, id: id, life: p.life, outcome: p.outcomes[id]}, nil
}

// verifStepIDOf: the templates carry the step id in the provider property (plugin: {src: <id>}).
func verifStepIDOf(inputs map[string]any) string {
	switch m := inputs["plugin"].(type) {
	case map[any]any:
		if s, ok := m["src"].(string); ok {
			return s
		}
	case map[string]any:
		if s, ok := m["src"].(string); ok {
			return s
		}
	}
	return "?"
}

func verifExecutor(run *vRun) *executor {
	base := verifPluginBase()
	life := verifLifecycle(base)
	// the run input of a plugin step is required
	for i := range life.Stages {
		if ps, ok := life.Stages[i].InputSchema["input"]; ok && life.Stages[i].ID == "starting" {
			ps.RequiredValue = true
		}
	}
	return &executor{logger: vLogger{}, config: &config.Config{}, stepRegistry: &vRegistry{p: &vProvider{run: run, base: base, life: life}}}
}

func verifWorkflow(t tWorkflow) *Workflow {
	wf := &Workflow{Input: map[any]any{}, Steps: map[string]any{}, Outputs: map[string]any{}}
	for _, ts := range t.steps {
		data := map[any]any{"plugin": map[any]any{"src": ts.id, "deployment_type": "builtin"}}
		for k, v := range ts.fields {
			data[k] = v
		}
		wf.Steps[ts.id] = data
	}
	for k, v := range t.outputs {
		wf.Outputs[k] = v
	}
	return wf
}

// verifEdges dumps the dependency graph canonically: "node <- dep (type)" lines, sorted.
func verifEdges(dag dgraph.DirectedGraph[*DAGItem]) []string {
	var res []string
	for id, n := range dag.ListNodes() {
		res = append(res, "node "+id+" kind="+string(n.Item().Kind))
		for dep, typ := range n.OutstandingDependencies() {
			res = append(res, id+" <- "+dep+" ("+string(typ)+")")
		}
	}
	sort.Strings(res)
	return res
}

// verifCanon renames the dependency-group nodes of an edge dump by their structure (the kinds and
// canonical names of what they depend on), so that graphs are compared up to the identifiers the
// implementation chooses for its group nodes. Lines: "node <id> kind=<k>" and "<id> <- <dep> (<type>)".
func verifCanon(lines []string) []string {
	group := map[string]bool{}
	deps := map[string][][2]string{}
	for _, l := range lines {
		if strings.HasPrefix(l, "node ") {
			f := strings.Fields(l)
			if len(f) == 3 && f[2] == "kind="+string(DagItemKindDependencyGroup) {
				group[f[1]] = true
			}
			continue
		}
		f := strings.Fields(l) // id <- dep (type)
		if len(f) == 4 {
			deps[f[0]] = append(deps[f[0]], [2]string{f[2], f[3]})
		}
	}
	var sig func(id string, depth int) string
	sig = func(id string, depth int) string {
		if !group[id] || depth > 8 {
			return id
		}
		var parts []string
		for _, d := range deps[id] {
			parts = append(parts, sig(d[0], depth+1)+d[1])
		}
		sort.Strings(parts)
		return "group[" + strings.Join(parts, ",") + "]"
	}
	var res []string
	for _, l := range lines {
		f := strings.Fields(l)
		if strings.HasPrefix(l, "node ") && len(f) == 3 {
			res = append(res, "node "+sig(f[1], 0)+" "+f[2])
		} else if len(f) == 4 {
			res = append(res, sig(f[0], 0)+" <- "+sig(f[2], 0)+" "+f[3])
		} else {
			res = append(res, l)
		}
	}
	sort.Strings(res)
	return res
}

func verifDiff(a, b []string) (onlyA, onlyB []string) {
	in := func(x string, l []string) bool {
		for _, y := range l {
			if x == y {
				return true
			}
		}
		return false
	}
	for _, x := range a {
		if !in(x, b) {
			onlyA = append(onlyA, x)
		}
	}
	for _, x := range b {
		if !in(x, a) {
			onlyB = append(onlyB, x)
		}
	}
	return
}

type vTarget struct {
	path  []any
	valid bool
	node  string // DAG node the reference must attach to ("" = the workflow input)
	cycle bool
	only  string // the target is used only for fields of this stage of step b
}

// reference targets for a field of step b: existing and dangling ones, of every path length.
func verifTargets() []vTarget {
	return []vTarget{
		{path: []any{"input"}, valid: true, node: "input"},
		{path: []any{"input", "x"}, valid: true, node: "input"},
		{path: []any{"steps", "a", "outputs", "success", "v"}, valid: true, node: "steps.a.outputs.success"},
		{path: []any{"steps", "a", "outputs", "error"}, valid: true, node: "steps.a.outputs.error"},
		{path: []any{"steps", "a", "outputs"}, valid: true, node: "steps.a.outputs"},
		{path: []any{"steps", "a", "crashed", "error"}, valid: true, node: "steps.a.crashed.error"},
		{path: []any{"steps", "a", "closed", "result"}, valid: true, node: "steps.a.closed.result"},
		{path: []any{"steps", "zz", "outputs", "success"}, valid: false},
		{path: []any{"steps", "a", "nostage", "x"}, valid: false},
		{path: []any{"steps", "a", "outputs", "nooutput"}, valid: false},
		{path: []any{"steps", "a"}, valid: false},
		{path: []any{"steps"}, valid: false},
		{path: []any{"other"}, valid: false},
		{path: []any{}, valid: false}, // the bare root "$"
		{path: []any{"steps", "b", "outputs", "success", "v"}, valid: false, cycle: true},
		// a stage of b that waits for itself: a one-node cycle (never reaches the graph's cycle search,
		// the graph refuses the edge)
		{path: []any{"steps", "b", "starting"}, valid: false, cycle: true, only: "starting"},
		{path: []any{"steps", "b", "starting", "started"}, valid: false, cycle: true, only: "starting"},
	}
}

// C10: the graph of an accepted workflow has exactly the lifecycle edges plus one dependency per
// reference, of the kind its tag demands; dangling, cyclic, ill-typed or incomplete workflows are rejected.
func VerifH_C10_reference_edges() {
	run := &vRun{steps: map[string]*vStep{}, emitted: map[string]int{}, emittedV: map[string]any{}}
	base := tWorkflow{
		steps: []tStep{
			{id: "a", fields: map[string]any{"input": verifStepInput(vx("input"))}},
			{id: "b", fields: map[string]any{"input": verifStepInput(vx("input"))}},
		},
		outputs: map[string]any{"success": map[any]any{"r": vx("steps", "b", "outputs", "success", "v")}},
	}
	ew0, err0 := verifExecutor(run).Prepare(verifWorkflow(base), nil)
	verifrt.Assert(err0 == nil, "the reference workflow is accepted")
	if err0 != nil {
		return
	}
	edges0 := verifEdges(ew0.DAG())

	targets := verifTargets()
	tg := targets[verifrt.Choice("target", len(targets))]
	field := []string{"input", "wait_for", "enabled", "stop_if", "deploy"}[verifrt.Choice("field", 5)]
	tag := verifrt.Choice("tag", 6) // 0 plain, 1 wait-optional, 2 soft-optional, 3 one-of with two options, 4/5 soft-/wait-optional inside a one-of option
	ref := vx(tg.path...)
	var slot any = ref
	stage := map[string]string{"input": "starting", "wait_for": "starting", "enabled": "enabling", "stop_if": "cancelled", "deploy": "deploy"}[field]
	consumer := "steps.b." + stage
	if tg.only != "" && tg.only != stage {
		return
	}
	var want []string
	group := consumer + "." + field + ".x"
	switch tag {
	case 0:
		want = []string{consumer + " <- " + tg.node + " (and)"}
	case 1:
		slot = &infer.OptionalExpression{Expr: ref, WaitForCompletion: true}
		want = []string{"node " + group + " kind=dependencyGroup", consumer + " <- " + group + " (completion-and)", group + " <- " + tg.node + " (and)"}
	case 2:
		slot = &infer.OptionalExpression{Expr: ref, WaitForCompletion: false}
		want = []string{"node " + group + " kind=dependencyGroup", consumer + " <- " + group + " (optional)", group + " <- " + tg.node + " (and)"}
	case 3:
		slot = &infer.OneOfExpression{Discriminator: "kind", Options: map[string]any{
			"p": map[any]any{"v": ref},
			"q": map[any]any{"v": vx("input")},
		}}
		want = []string{"node " + group + " kind=dependencyGroup", consumer + " <- " + group + " (and)",
			"node " + group + ".p kind=dependencyGroup", "node " + group + ".q kind=dependencyGroup",
			group + " <- " + group + ".p (or)", group + " <- " + group + ".q (or)",
			group + ".p <- " + tg.node + " (and)", group + ".q <- input (and)"}
	}
	if tag == 4 || tag == 5 {
		// tags nested in one another: the optional value keeps the dependency kind its own tag demands
		kind := "(optional)"
		if tag == 5 {
			kind = "(completion-and)"
		}
		slot = &infer.OneOfExpression{Discriminator: "kind", Options: map[string]any{
			"p": map[any]any{"v": &infer.OptionalExpression{Expr: ref, WaitForCompletion: tag == 5}},
			"q": map[any]any{"v": vx("input")},
		}}
		opt := group + ".p.v"
		want = []string{"node " + group + " kind=dependencyGroup", consumer + " <- " + group + " (and)",
			"node " + group + ".p kind=dependencyGroup", "node " + group + ".q kind=dependencyGroup", "node " + opt + " kind=dependencyGroup",
			group + " <- " + group + ".p (or)", group + " <- " + group + ".q (or)",
			group + ".p <- " + opt + " " + kind, opt + " <- " + tg.node + " (and)", group + ".q <- input (and)"}
	}
	if tg.node == "input" {
		// references to the workflow input are connected from the input node (always resolved first)
		for i := range want {
			want[i] = strings.Replace(want[i], " <- input (and)", " <- input (and)", 1)
		}
	}
	t := base
	t.steps = []tStep{base.steps[0], {id: "b", fields: map[string]any{"input": verifStepInput(vx("input"))}}}
	if field == "input" {
		t.steps[1].fields["input"] = map[any]any{"x": slot}
	} else {
		t.steps[1].fields[field] = map[any]any{"x": slot}
	}
	missing := verifrt.Choice("drop-required-input", 2) == 1
	if missing {
		if field == "input" {
			return // the slot is the required field itself
		}
		delete(t.steps[1].fields, "input")
	}
	// the value given for the chosen field may be of a type its schema does not admit (whether the
	// field is required or optional): the compatibility check of exactly that field then fails
	verifCompatFails = verifrt.Choice("compat", 2) == 1
	ex := verifExecutor(run)
	verifCompatProp = nil
	for _, st := range ex.stepRegistry.(*vRegistry).p.(*vProvider).life.Stages {
		if ps, ok := st.InputSchema[field]; ok && st.ID == stage {
			verifCompatProp = ps
		}
	}
	verifrt.Assert(verifCompatProp != nil, "harness: the chosen field is declared by its stage")
	ew, err := ex.Prepare(verifWorkflow(t), nil)
	verifCompatProp = nil
	wellFormed := tg.valid && !missing && !verifCompatFails
	if !wellFormed {
		verifrt.Reach("rejected")
		verifrt.Assert(err != nil, "dangling, cyclic, ill-typed or incomplete workflows are rejected")
		return
	}
	verifrt.Reach("accepted")
	verifrt.Assert(err == nil, "a well-formed workflow is accepted")
	if err != nil {
		return
	}
	extra, lost := verifDiff(verifCanon(verifEdges(ew.DAG())), verifCanon(edges0))
	if tg.node == "input" && tag == 0 && field == "input" {
		// same reference as in the base workflow
		verifrt.Assert(len(extra) == 0 && len(lost) == 0, "an input reference adds only the input edge")
		return
	}
	// the expected lines are written with the current identifiers of the group nodes; both sides are
	// compared in canonical form, so another naming scheme for group nodes is not an alarm
	wantExtra, missingWant := verifDiff(verifCanon(append(append([]string{}, want...), edges0...)), verifCanon(edges0))
	_ = missingWant
	gotOnly, wantOnly := verifDiff(extra, wantExtra)
	if len(gotOnly)+len(wantOnly) > 0 {
		verifrt.Event("field=" + field + " got-only: " + strings.Join(gotOnly, " | ") + " want-only: " + strings.Join(wantOnly, " | "))
	}
	verifrt.Assert(len(wantOnly) == 0, "the graph contains a dependency of the required kind for every reference")
	verifrt.Assert(len(gotOnly) == 0, "the graph contains nothing but the lifecycle edges and the reference dependencies")
	if field == "input" {
		verifrt.Assert(len(lost) <= 1, "only the replaced reference's edge disappears")
	} else {
		verifrt.Assert(len(lost) == 0, "no lifecycle edge is lost")
	}
}

// C10: two tagged fields of the same stage (e.g. input and wait_for) each get their own dependency group.
func VerifH_C10_two_tagged_fields() {
	run := &vRun{steps: map[string]*vStep{}, emitted: map[string]int{}, emittedV: map[string]any{}}
	t := tWorkflow{
		steps: []tStep{
			{id: "a", fields: map[string]any{"input": verifStepInput(vx("input"))}},
			{id: "b", fields: map[string]any{
				"input":    map[any]any{"x": &infer.OptionalExpression{Expr: vx("steps", "a", "outputs", "success", "v"), WaitForCompletion: false}},
				"wait_for": map[any]any{"x": &infer.OptionalExpression{Expr: vx("steps", "a", "outputs", "error"), WaitForCompletion: true}},
			}},
		},
		outputs: map[string]any{"success": map[any]any{"r": vx("steps", "b", "outputs", "success", "v")}},
	}
	_, err := verifExecutor(run).Prepare(verifWorkflow(t), nil)
	verifrt.Assert(err == nil, "a workflow with tagged values under the same key in two fields of one stage is accepted")
}

// C16: preparing the same workflow under every iteration order of any single map range gives the same
// verdict and the same dependency graph (up to generated identifiers), and preparing twice is idempotent.
func VerifH_C16_order_insensitive() {
	run := &vRun{steps: map[string]*vStep{}, emitted: map[string]int{}, emittedV: map[string]any{}}
	mk := func() tWorkflow {
		return tWorkflow{
			steps: []tStep{
				{id: "a", fields: map[string]any{"input": verifStepInput(vx("input"))}},
				{id: "b", fields: map[string]any{
					"input": map[any]any{"x": vx("steps", "a", "outputs", "success", "v"), "y": &infer.OptionalExpression{Expr: vx("steps", "a", "outputs", "error"), WaitForCompletion: true},
						"z": vx2(vx("steps", "a", "outputs", "success", "flag"), vx("steps", "d", "outputs", "success", "v"))},
					"wait_for": vx("steps", "a", "outputs"),
				}},
				{id: "d", fields: map[string]any{"input": verifStepInput(vx("input"))}},
				{id: "c", fields: map[string]any{"input": map[any]any{"x": &infer.OneOfExpression{Discriminator: "kind", Options: map[string]any{
					"p": map[any]any{"v": vx("steps", "a", "outputs", "success", "v")},
					"q": map[any]any{"v": vx("steps", "b", "outputs", "success", "v")},
				}}}}},
			},
			outputs: map[string]any{
				"success": map[any]any{"r": vx("steps", "c", "outputs", "success", "v")},
				"error": map[any]any{"e": vx("steps", "b", "outputs", "error"),
					"w": &infer.OptionalExpression{Expr: vx("steps", "d", "outputs", "success", "v")},
					"n": map[any]any{"k": vx("input"), "o": &infer.OptionalExpression{Expr: vx("steps", "a", "outputs", "error", "v")}}},
			},
		}
	}
	corrupt := verifrt.Choice("corrupt", 3)
	base := mk
	mk = func() tWorkflow {
		t := base()
		switch corrupt {
		case 1:
			delete(t.steps[1].fields, "input") // required input of b missing
		case 2:
			t.steps[0].fields["wait_for"] = vx("steps", "zz", "outputs") // dangling reference in a
		}
		return t
	}
	verifObjCounter = 0
	ew0, err0 := verifExecutor(run).Prepare(verifWorkflow(mk()), nil)
	verifrt.Assert((err0 == nil) == (corrupt == 0), "the workflow is accepted exactly when it is well-formed")
	if corrupt != 0 {
		k := verifrt.Choice("site", verifrt.Param("sites", 60))
		verifrt.PermuteOnly(k)
		_, err1 := verifExecutor(run).Prepare(verifWorkflow(mk()), nil)
		if k < verifrt.PermuteOff() {
			verifrt.Reach("permuted-invalid")
			verifrt.Assert(err1 != nil, "the verdict does not depend on map iteration order")
		}
		return
	}
	if err0 != nil {
		return
	}
	edges0 := verifEdges(ew0.DAG())
	k := verifrt.Choice("site", verifrt.Param("sites", 60))
	verifObjCounter = 0
	verifrt.PermuteOnly(k)
	ew1, err1 := verifExecutor(run).Prepare(verifWorkflow(mk()), nil)
	n := verifrt.PermuteOff()
	if k >= n {
		verifrt.Reach("beyond-last-site")
		return
	}
	verifrt.Reach("permuted")
	verifrt.Assert(err1 == nil, "the verdict does not depend on map iteration order")
	if err1 != nil {
		return
	}
	a, b := verifDiff(edges0, verifEdges(ew1.DAG()))
	verifrt.Assert(len(a) == 0 && len(b) == 0, "the dependency graph does not depend on map iteration order")
	ids0, ids1 := []string{}, []string{}
	for id := range ew0.OutputSchema() {
		ids0 = append(ids0, id)
	}
	for id := range ew1.OutputSchema() {
		ids1 = append(ids1, id)
	}
	sort.Strings(ids0)
	sort.Strings(ids1)
	verifrt.Assert(strings.Join(ids0, ",") == strings.Join(ids1, ","), "the output schemas do not depend on map iteration order")
	s0, s1 := verifSchemaCanon(ew0.OutputSchema()), verifSchemaCanon(ew1.OutputSchema())
	verifrt.Assert(strings.Join(s0, ";") == strings.Join(s1, ";"), "the inferred output schemas (property names, types, required flags) do not depend on map iteration order")
	verifrt.Assert(strings.Contains(strings.Join(s0, ";"), "?") && strings.Contains(strings.Join(s0, ";"), "!"), "harness: the template's outputs mix optional and required properties")
}

// verifSchemaCanon describes output schemas by their sorted property paths: "<output>.<path>:<type id><!|?>"
// ('!' required, '?' optional), descending into objects.
func verifSchemaCanon(outs map[string]*schema.StepOutputSchema) []string {
	var res []string
	var walk func(prefix string, props map[string]*schema.PropertySchema, depth int)
	walk = func(prefix string, props map[string]*schema.PropertySchema, depth int) {
		for name, p := range props {
			flag := "?"
			if p.Required() {
				flag = "!"
			}
			res = append(res, prefix+"."+name+":"+string(p.TypeID())+flag)
			if depth < 4 {
				switch t := p.Type().(type) {
				case *schema.ObjectSchema:
					walk(prefix+"."+name, t.Properties(), depth+1)
				case *schema.ScopeSchema:
					walk(prefix+"."+name, t.Properties(), depth+1)
				}
			}
		}
	}
	for id, o := range outs {
		if ss, ok := o.Schema().(*schema.ScopeSchema); ok {
			walk(id, ss.Properties(), 0)
		} else {
			res = append(res, id+":opaque")
		}
	}
	sort.Strings(res)
	return res
}

// C10: an expression with several references gets a dependency for each of them, also when one of
// them duplicates a dependency the same stage already has through another field.
func VerifH_C10_multi_reference() {
	run := newRun()
	order := verifrt.Choice("order", 2)
	dup := vx("steps", "a", "outputs", "success", "v")
	other := vx("steps", "c", "outputs", "success", "v")
	var expr *verifExpr
	if order == 0 {
		expr = vx2(dup, other)
	} else {
		expr = vx2(other, dup)
	}
	t := tWorkflow{
		steps: []tStep{
			{id: "a", fields: map[string]any{"input": verifStepInput(vx("input"))}},
			{id: "c", fields: map[string]any{"input": verifStepInput(vx("input"))}},
			{id: "b", fields: map[string]any{"input": []any{vx("steps", "a", "outputs", "success", "flag"), expr}}},
		},
		outputs: map[string]any{"success": map[any]any{"r": vx("steps", "b", "outputs", "success", "v")}},
	}
	ew, err := verifExecutor(run).Prepare(verifWorkflow(t), nil)
	verifrt.Assert(err == nil, "the workflow is accepted")
	if err != nil {
		return
	}
	n, gerr := ew.DAG().GetNodeByID("steps.b.starting")
	verifrt.Assert(gerr == nil, "stage node exists")
	deps := n.OutstandingDependencies()
	_, hasA := deps["steps.a.outputs.success"]
	_, hasC := deps["steps.c.outputs.success"]
	verifrt.Assert(hasA && hasC, "every reference of a multi-reference expression has its dependency")
}

// C11 (after YAML decoding): whatever shape a step definition has - not a map, a 'kind' that is not a
// string or names no provider, keys that are not strings - Prepare answers with a workflow or an error,
// never with a crash; only the well-formed shape is accepted.
func VerifH_C11_prepare_step_shapes() {
	run := newRun()
	def := func() map[any]any {
		return map[any]any{"plugin": map[any]any{"src": "image", "deployment_type": "builtin"}, "input": verifStepInput(vx("input"))}
	}
	var stepData any
	valid := false
	switch verifrt.Choice("step-shape", 6) {
	case 0:
		stepData = def()
		valid = true
	case 1:
		stepData = "just text"
	case 2:
		stepData = []any{def()}
	case 3:
		stepData = nil
	case 4:
		m := def()
		switch verifrt.Choice("kind", 7) {
		case 0:
			m["kind"] = "plugin"
			valid = true
		case 1:
			m["kind"] = "no-such-kind"
		case 2:
			m["kind"] = int64(3)
		case 3:
			m["kind"] = nil
		case 4:
			m["kind"] = []any{"plugin"}
		case 5:
			m["kind"] = map[any]any{"plugin": true}
		case 6:
			m["kind"] = true
		}
		stepData = m
	case 5:
		m := def()
		m[int64(1)] = "x" // a key that is not a string
		stepData = m
	}
	wf := &Workflow{Input: map[any]any{}, Steps: map[string]any{"a": stepData},
		Outputs: map[string]any{"success": map[any]any{"r": vx("input")}}}
	_, err := verifExecutor(run).Prepare(wf, nil)
	if valid {
		verifrt.Reach("accepted")
		verifrt.Assert(err == nil, "a well-formed step definition is accepted")
	} else {
		verifrt.Reach("rejected")
		verifrt.Assert(err != nil, "a malformed step definition is rejected with an error")
	}
}

// C17 (preparation): two workflows are prepared at the same time by two goroutines (a server preparing
// workflows per request; nothing in the API forbids it). Nothing of the engine's memory may be touched by
// both without synchronisation - in particular the package-level state used to generate object identifiers.
func VerifH_C17_concurrent_prepare() {
	mk := func() *Workflow {
		return verifWorkflow(tWorkflow{
			steps: []tStep{
				{id: "a", fields: map[string]any{"input": verifStepInput(vx("input"))}},
			},
			outputs: map[string]any{"success": map[any]any{"r": vx("steps", "a", "outputs", "success", "v")}},
		})
	}
	done := make(chan error, 2)
	for k := 0; k < 2; k++ {
		wf := mk()
		ex := verifExecutor(newRun())
		verifrt.Go(func() {
			_, err := ex.Prepare(wf, nil)
			done <- err
		})
	}
	e1, e2 := <-done, <-done
	verifrt.Reach("both-prepared")
	verifrt.Assert(e1 == nil && e2 == nil, "both workflows are accepted")
}

// C16: consistently renaming the steps (including names of which one is a prefix of another, names that
// sort differently, names with separators in them) changes nothing but the names: same verdict, and the
// same dependency graph once the names are mapped back.
func VerifH_C16_renaming() {
	run := &vRun{steps: map[string]*vStep{}, emitted: map[string]int{}, emittedV: map[string]any{}}
	namings := [][3]string{
		{"a", "b", "c"},       // reference naming
		{"a", "ab", "abc"},    // each name a prefix of the next
		{"abc", "ab", "a"},    // ... and the other way round
		{"z", "y", "x"},       // reverse alphabetical order
		{"s_1", "s_10", "s_2"}, // numeric suffixes, underscores
	}
	mk := func(n [3]string) tWorkflow {
		p, c, d := n[0], n[1], n[2]
		return tWorkflow{
			steps: []tStep{
				{id: p, fields: map[string]any{"input": verifStepInput(vx("input"))}},
				{id: c, fields: map[string]any{
					"input":    map[any]any{"x": vx("steps", p, "outputs", "success", "v"), "y": &infer.OptionalExpression{Expr: vx("steps", d, "outputs", "error"), WaitForCompletion: true}},
					"wait_for": vx("steps", p, "outputs"),
				}},
				{id: d, fields: map[string]any{"input": verifStepInput(vx("input"))}},
			},
			outputs: map[string]any{"success": map[any]any{"r": vx("steps", c, "outputs", "success", "v")}},
		}
	}
	back := func(lines []string, n [3]string) []string {
		var res []string
		for _, l := range lines {
			// step names appear as "steps.<name>." (or at the end of a node id of the step itself)
			for i, ph := range []string{"<P>", "<C>", "<D>"} {
				l = strings.ReplaceAll(l, "steps."+n[i]+".", "steps."+ph+".")
			}
			res = append(res, l)
		}
		sort.Strings(res)
		return res
	}
	ew0, err0 := verifExecutor(run).Prepare(verifWorkflow(mk(namings[0])), nil)
	verifrt.Assert(err0 == nil, "the reference workflow is accepted")
	if err0 != nil {
		return
	}
	edges0 := back(verifCanon(verifEdges(ew0.DAG())), namings[0])
	k := 1 + verifrt.Choice("naming", len(namings)-1)
	ew1, err1 := verifExecutor(run).Prepare(verifWorkflow(mk(namings[k])), nil)
	verifrt.Assert(err1 == nil, "consistently renaming the steps does not change the verdict")
	if err1 != nil {
		return
	}
	verifrt.Reach("renamed")
	a, b := verifDiff(edges0, back(verifCanon(verifEdges(ew1.DAG())), namings[k]))
	if len(a)+len(b) > 0 {
		verifrt.Event("only in reference: " + strings.Join(a, " | ") + " only in renamed: " + strings.Join(b, " | "))
	}
	verifrt.Assert(len(a) == 0 && len(b) == 0, "consistently renaming the steps changes nothing but the names in the dependency graph")
}
