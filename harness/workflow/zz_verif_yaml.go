//go:build verif

package workflow

import (
	"go.flow.arcalot.io/engine/internal/verifrt"
	"go.flow.arcalot.io/engine/internal/yaml"
	"go.flow.arcalot.io/expressions"
	"go.flow.arcalot.io/pluginsdk/schema"
)

// redirect target for expressions.New: compiling an expression succeeds or fails (the expression
// language itself is outside the encoding).
func verifExprNew(s string) (expressions.Expression, error) {
	if verifrt.Choice("expression-compiles", 2) == 1 {
		return nil, &verifrt.Err{Msg: "syntax error in expression"}
	}
	return vx("input"), nil
}

var verifYTypes = []yaml.TypeID{yaml.TypeIDString, yaml.TypeIDMap, yaml.TypeIDSequence}
var verifYTags = []string{"", YamlExprTag, YamlOneOfTag, OrDisabledTag, WaitOptionalTag, SoftOptionalTag, "!other"}
var verifYValues = []string{"", "x", "$.steps.a.outputs.success", "steps.a.outputs"}
var verifYKeys = []string{YamlDiscriminatorKey, YamlOneOfKey, "a"}

func verifYNode(depth int) yaml.Node {
	t := verifYTypes[verifrt.Choice("type", len(verifYTypes))]
	tag := verifYTags[verifrt.Choice("tag", len(verifYTags))]
	var contents []yaml.Node
	value := ""
	switch t {
	case yaml.TypeIDString:
		value = verifYValues[verifrt.Choice("value", len(verifYValues))]
	case yaml.TypeIDMap:
		if depth > 0 {
			n := verifrt.Choice("pairs", 3)
			for i := 0; i < n; i++ {
				k := verifYKeys[(i+verifrt.Choice("key", len(verifYKeys)))%len(verifYKeys)]
				contents = append(contents, yaml.VerifNode(yaml.TypeIDString, "", nil, k), verifYNode(depth-1))
			}
		}
	case yaml.TypeIDSequence:
		if depth > 0 {
			n := verifrt.Choice("items", 2)
			for i := 0; i < n; i++ {
				contents = append(contents, verifYNode(depth-1))
			}
		}
	}
	return yaml.VerifNode(t, tag, contents, value)
}

// C11: tag handling and expression compilation over every node tree (tags on every kind of node,
// one-of sections of every shape) give a value or an error, never a panic.
func VerifH_C11_build_expressions() {
	n := verifYNode(verifrt.Param("depth", 2))
	v, err := yamlBuildExpressions(n, []string{})
	if err != nil {
		verifrt.Reach("error")
		_ = v
		return
	}
	verifrt.Reach("value")
	switch n.Tag() {
	case YamlExprTag, OrDisabledTag, SoftOptionalTag, WaitOptionalTag:
		verifrt.Assert(n.Type() == yaml.TypeIDString, "an expression tag is accepted on string nodes only")
	case YamlOneOfTag:
		verifrt.Assert(n.Type() == yaml.TypeIDMap, "a one-of tag is accepted on map nodes only")
	default:
		if n.Type() == yaml.TypeIDString {
			verifrt.Assert(v == any(n.Value()), "an untagged scalar is its own value")
		}
	}
}

// C11: FromYAML on every kind of document root (a map with or without the usual sections, a list, a scalar,
// a tagged scalar) and on a parser error: a workflow or an error, never a crash.
func VerifH_C11_from_yaml() {
	var root yaml.Node
	switch verifrt.Choice("root", 6) {
	case 0:
		root = yaml.VerifNode(yaml.TypeIDString, "", nil, "just text")
	case 1:
		root = yaml.VerifNode(yaml.TypeIDString, YamlExprTag, nil, "$.x")
	case 2:
		root = yaml.VerifNode(yaml.TypeIDSequence, "", []yaml.Node{yaml.VerifNode(yaml.TypeIDString, "", nil, "a")}, "")
	case 3:
		root = yaml.VerifNode(yaml.TypeIDSequence, "", nil, "")
	case 4:
		yaml.VerifParseFails = true
	default:
		// a map root with or without the usual sections (their values are plain or tagged scalars / maps)
		var contents []yaml.Node
		if verifrt.Choice("has-version", 2) == 1 {
			contents = append(contents, yaml.VerifNode(yaml.TypeIDString, "", nil, "version"), verifYNode(0))
		}
		if verifrt.Choice("has-steps", 2) == 1 {
			contents = append(contents, yaml.VerifNode(yaml.TypeIDString, "", nil, "steps"), yaml.VerifNode(yaml.TypeIDMap, "", nil, ""))
		}
		root = yaml.VerifNode(yaml.TypeIDMap, "", contents, "")
	}
	yaml.VerifParsed = root
	wf, err := (yamlConverter{}).FromYAML([]byte("text"))
	yaml.VerifParseFails = false
	verifrt.Assert((wf == nil) != (err == nil), "FromYAML returns a workflow or an error")
	if err != nil {
		verifrt.Reach("error")
	}
}

// redirect target for the typed unserialisation of the workflow document (the schema library's reflective
// struct mapping is below the cut line): it accepts or rejects.
func verifUnserializeWorkflow(s schema.TypedScopeSchema[*Workflow], data any) (*Workflow, error) {
	if verifrt.Choice("document-matches-schema", 2) == 0 {
		return nil, &verifrt.Err{Msg: "document does not match the workflow schema"}
	}
	return &Workflow{}, nil
}

// redirect target for GetSchema (building the workflow schema is reflective library code below the cut line)
func verifGetSchema() *schema.TypedScopeSchema[*Workflow] { return &schema.TypedScopeSchema[*Workflow]{} }
