//go:build verif

package workflow

import (
	"go.flow.arcalot.io/engine/internal/verifrt"
	"go.flow.arcalot.io/engine/internal/yaml"
	"go.flow.arcalot.io/expressions"
)

// redirect target for expressions.New: compiling an expression succeeds or fails (the expression
// language itself is outside the encoding).
func verifExprNew(s string) (expressions.Expression, error) {
	if verifrt.Choice("expression-compiles", 2) == 1 {
		return nil, &verifrt.Err{Msg: "syntax error in expression"}
	}
	return vx("input"), nil
}

var verifYTypes = []yaml.TypeID{yaml.TypeIDString, yaml.TypeIDMap, yaml.TypeIDSequence}
var verifYTags = []string{"", YamlExprTag, YamlOneOfTag, OrDisabledTag, WaitOptionalTag, SoftOptionalTag, "!other"}
var verifYValues = []string{"", "x", "$.steps.a.outputs.success", "steps.a.outputs"}
var verifYKeys = []string{YamlDiscriminatorKey, YamlOneOfKey, "a"}

func verifYNode(depth int) yaml.Node {
	t := verifYTypes[verifrt.Choice("type", len(verifYTypes))]
	tag := verifYTags[verifrt.Choice("tag", len(verifYTags))]
	var contents []yaml.Node
	value := ""
	switch t {
	case yaml.TypeIDString:
		value = verifYValues[verifrt.Choice("value", len(verifYValues))]
	case yaml.TypeIDMap:
		if depth > 0 {
			n := verifrt.Choice("pairs", 3)
			for i := 0; i < n; i++ {
				k := verifYKeys[(i+verifrt.Choice("key", len(verifYKeys)))%len(verifYKeys)]
				contents = append(contents, yaml.VerifNode(yaml.TypeIDString, "", nil, k), verifYNode(depth-1))
			}
		}
	case yaml.TypeIDSequence:
		if depth > 0 {
			n := verifrt.Choice("items", 2)
			for i := 0; i < n; i++ {
				contents = append(contents, verifYNode(depth-1))
			}
		}
	}
	return yaml.VerifNode(t, tag, contents, value)
}

// C11: tag handling and expression compilation over every node tree (tags on every kind of node,
// one-of sections of every shape) give a value or an error, never a panic.
func VerifH_C11_build_expressions() {
	n := verifYNode(verifrt.Param("depth", 2))
	v, err := yamlBuildExpressions(n, []string{})
	if err != nil {
		verifrt.Reach("error")
		_ = v
		return
	}
	verifrt.Reach("value")
	switch n.Tag() {
	case YamlExprTag, OrDisabledTag, SoftOptionalTag, WaitOptionalTag:
		verifrt.Assert(n.Type() == yaml.TypeIDString, "an expression tag is accepted on string nodes only")
	case YamlOneOfTag:
		verifrt.Assert(n.Type() == yaml.TypeIDMap, "a one-of tag is accepted on map nodes only")
	default:
		if n.Type() == yaml.TypeIDString {
			verifrt.Assert(v == any(n.Value()), "an untagged scalar is its own value")
		}
	}
}
