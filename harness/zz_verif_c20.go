//go:build verif

package engine

import (
	"context"

	"go.arcalot.io/dgraph"
	"go.flow.arcalot.io/engine/internal/verifrt"
	iyaml "go.flow.arcalot.io/engine/internal/yaml"
	"go.flow.arcalot.io/engine/workflow"
	"go.flow.arcalot.io/pluginsdk/schema"
)

// redirect target for the YAML parser used by Run (input decoding is outside the encoding)
func verifYamlParse(p any, data []byte) (iyaml.Node, error) {
	if verifrt.Choice("input-decodes", 2) == 1 {
		return nil, &verifrt.Err{Msg: "bad yaml"}
	}
	return iyaml.VerifNode(iyaml.TypeIDString, "", nil, "input"), nil
}

type vPrepared struct {
	outputs  map[string]*schema.StepOutputSchema
	id       string
	fails    bool
	executed bool
}

func (v *vPrepared) Input() schema.Scope                                    { return nil }
func (v *vPrepared) DAG() dgraph.DirectedGraph[*workflow.DAGItem]           { return nil }
func (v *vPrepared) OutputSchema() map[string]*schema.StepOutputSchema      { return v.outputs }
func (v *vPrepared) Namespaces() map[string]map[string]*schema.ObjectSchema { return nil }
func (v *vPrepared) Execute(ctx context.Context, in any) (string, any, error) {
	v.executed = true
	if v.fails {
		return "", nil, &verifrt.Err{Msg: "run failed"}
	}
	return v.id, map[any]any{"v": verifrt.NondetVal("data")}, nil
}

// C20: Run flags the result as an error exactly when the chosen output is declared an error output.
func VerifH_C20_run_error_flag() {
	mk := func(id string) *schema.StepOutputSchema {
		return schema.NewStepOutputSchema(schema.NewScopeSchema(schema.NewObjectSchema(id, map[string]*schema.PropertySchema{})), nil, verifrt.NondetBool("declaredError."+id))
	}
	p := &vPrepared{outputs: map[string]*schema.StepOutputSchema{"success": mk("success"), "error": mk("error")}}
	ids := []string{"success", "error", "undeclared"}
	p.id = ids[verifrt.Choice("id", 3)]
	p.fails = verifrt.Choice("fails", 2) == 1
	id, data, isErr, err := engineWorkflow{workflow: p}.Run(context.Background(), []byte("{}"))
	if err != nil {
		verifrt.Reach("error")
		verifrt.Assert(id == "" && data == nil && isErr, "a failed run reports no output and the error flag")
		return
	}
	verifrt.Reach("output")
	verifrt.Assert(p.executed && !p.fails && p.id != "undeclared", "an output is only returned for a declared output of a successful run")
	verifrt.Assert(id == p.id, "the output id is the one the run produced")
	verifrt.Assert(isErr == p.outputs[p.id].Error(), "the result is flagged as error exactly when the chosen output is declared an error output")
}
