//go:build verif

package loadfile

import (
	"go.flow.arcalot.io/engine/internal/verifrt"
)

var verifCwd string

// redirect target for filepath.Abs (POSIX semantics with the working directory as a variable)
func verifAbs(p string) (string, error) {
	if len(p) > 0 && p[0] == '/' {
		return p, nil
	}
	if p == "" || p == "." {
		return verifCwd, nil
	}
	return verifCwd + "/" + p, nil
}

// C20: with an absolute context directory nothing depends on the working directory; every key maps
// to join(root, file) (or to the absolute file path); merging does not depend on map order.
func VerifH_C20_file_cache_paths() {
	roots := []string{"/ctx", "rel/ctx", "."}
	root := roots[verifrt.Choice("root", len(roots))]
	files := map[string]string{"workflow": "workflow.yaml", "input": []string{"in.yaml", "/abs/in.yaml", "sub/in.yaml"}[verifrt.Choice("input", 3)]}
	verifCwd = "/cwd1"
	fc1, err1 := NewFileCacheUsingContext(root, files)
	verifCwd = "/cwd2"
	fc2, err2 := NewFileCacheUsingContext(root, files)
	verifrt.Assert(err1 == nil && err2 == nil, "the file cache is created")
	if err1 != nil || err2 != nil {
		return
	}
	for key, f := range files {
		p1, e1 := fc1.AbsPathByKey(key)
		p2, e2 := fc2.AbsPathByKey(key)
		verifrt.Assert(e1 == nil && e2 == nil, "every key is present")
		if root[0] == '/' || f[0] == '/' {
			verifrt.Reach("absolute")
			verifrt.Assert(p1 == p2, "with an absolute context directory (or file) the path does not depend on the working directory")
		}
		if f[0] == '/' {
			verifrt.Assert(p1 == f, "an absolute file path is kept")
		} else if root[0] == '/' {
			verifrt.Assert(p1 == root+"/"+f, "a relative file is resolved against the context directory")
		} else {
			verifrt.Reach("relative-root")
			if root == "." {
				verifrt.Assert(p1 == "/cwd1/"+f && p2 == "/cwd2/"+f, "a relative context directory is resolved against the working directory")
			} else {
				verifrt.Assert(p1 == "/cwd1/"+root+"/"+f && p2 == "/cwd2/"+root+"/"+f, "a relative context directory is resolved against the working directory")
			}
		}
	}
	// merging: later caches win on key clashes, independent of iteration order inside each cache
	a := NewFileCache("/ctx", map[string][]byte{"k1": []byte("a1"), "k2": []byte("a2")})
	b := NewFileCache("/ctx", map[string][]byte{"k2": []byte("b2"), "k3": []byte("b3")})
	m, err := MergeFileCaches(a, nil, b)
	verifrt.Assert(err == nil, "caches with the same root merge")
	if err == nil {
		c := m.Contents()
		verifrt.Assert(len(c) == 3 && string(c["k1"]) == "a1" && string(c["k2"]) == "b2" && string(c["k3"]) == "b3", "merged cache holds the union, later caches winning")
		verifrt.Assert(m.RootDir() == "/ctx", "merged cache keeps the root directory")
	}
	_, err = MergeFileCaches(a, NewFileCache("/other", map[string][]byte{}))
	verifrt.Assert(err != nil, "caches with different roots do not merge")
}
