// Command symgo is the driver of the /verif machinery.
package main

import (
	"flag"
	"fmt"
	"os"
	"strconv"

	"verif/symgo/symgo"
)

func main() {
	if len(os.Args) < 2 {
		fmt.Fprintln(os.Stderr, "usage: symgo check <Cxx> [--tier quick|thorough] [--only substr] [-v] | symgo replay <file> | symgo externs <check>")
		os.Exit(2)
	}
	verifDir := os.Getenv("VERIF_DIR")
	if verifDir == "" {
		verifDir = "/verif"
	}
	repoDir := os.Getenv("VERIF_REPO")
	if repoDir == "" {
		repoDir = "/repo"
	}
	switch os.Args[1] {
	case "check":
		fs := flag.NewFlagSet("check", flag.ExitOnError)
		tier := fs.String("tier", envOr("VERIF_TIER", "quick"), "quick|thorough")
		only := fs.String("only", "", "run only harnesses whose name contains this")
		verbose := fs.Bool("v", false, "verbose")
		prop := os.Args[2]
		fs.Parse(os.Args[3:])
		seed, _ := strconv.ParseInt(envOr("VERIF_SEED", "0"), 10, 64)
		os.Exit(symgo.RunCheck(verifDir, repoDir, prop, *tier, seed, *only, *verbose))
	case "replay":
		os.Exit(symgo.RunReplay(verifDir, repoDir, os.Args[2]))
	case "externs":
		os.Exit(symgo.RunExterns(verifDir, repoDir, os.Args[2]))
	default:
		fmt.Fprintln(os.Stderr, "unknown subcommand", os.Args[1])
		os.Exit(2)
	}
}

func envOr(k, d string) string {
	if v := os.Getenv(k); v != "" {
		return v
	}
	return d
}
