package symgo

// Ordered map: the only map representation of the interpreter.  Iteration
// order is insertion order unless the exploration chooses a permutation, so a
// run is a deterministic function of its decision vector.

import (
	"fmt"
	"go/types"
)

type omapEntry struct {
	key   value
	val   value
	alive bool
}

type omap struct {
	kt      types.Type
	entries []*omapEntry
	index   map[int][]*omapEntry
	n       int
	id      int // allocation id (for diagnostics / HB)
}

func makeMap(kt types.Type, reserve int64) value {
	return &omap{kt: kt, index: map[int][]*omapEntry{}}
}

func keyHash(kt types.Type, k value) int {
	if containsSym(k) {
		abortf("symbolic value used as map key (type %s)", kt)
	}
	return hash(kt, kt, k)
}

func containsSym(v value) bool {
	switch v := v.(type) {
	case *Sym:
		return true
	case iface:
		return containsSym(v.v)
	case structure:
		for _, e := range v {
			if containsSym(e) {
				return true
			}
		}
	case array:
		for _, e := range v {
			if containsSym(e) {
				return true
			}
		}
	}
	return false
}

func (m *omap) find(k value) *omapEntry {
	h := keyHash(m.kt, k)
	for _, e := range m.index[h] {
		if e.alive && equalsConcrete(m.kt, e.key, k) {
			return e
		}
	}
	return nil
}

func (m *omap) lookup(k value) (value, bool) {
	if m == nil {
		return nil, false
	}
	if e := m.find(k); e != nil {
		return e.val, true
	}
	return nil, false
}

func (m *omap) insert(k, v value) {
	if m == nil {
		panic(targetFault("assignment to entry in nil map"))
	}
	if e := m.find(k); e != nil {
		e.val = v
		return
	}
	e := &omapEntry{key: k, val: v, alive: true}
	m.entries = append(m.entries, e)
	h := keyHash(m.kt, k)
	m.index[h] = append(m.index[h], e)
	m.n++
}

func (m *omap) delete(k value) {
	if m == nil {
		return
	}
	if e := m.find(k); e != nil {
		e.alive = false
		m.n--
		h := keyHash(m.kt, k)
		lst := m.index[h]
		for i, x := range lst {
			if x == e {
				m.index[h] = append(lst[:i:i], lst[i+1:]...)
				break
			}
		}
		// compact occasionally
		if len(m.entries) > 32 && m.n*2 < len(m.entries) {
			live := m.entries[:0:0]
			for _, x := range m.entries {
				if x.alive {
					live = append(live, x)
				}
			}
			m.entries = live
		}
	}
}

func (m *omap) len() int {
	if m == nil {
		return 0
	}
	return m.n
}

// live returns the live entries in insertion order.
func (m *omap) live() []*omapEntry {
	if m == nil {
		return nil
	}
	res := make([]*omapEntry, 0, m.n)
	for _, e := range m.entries {
		if e.alive {
			res = append(res, e)
		}
	}
	return res
}

type omapIter struct {
	order []*omapEntry
	pos   int
}

func (it *omapIter) next() tuple {
	for it.pos < len(it.order) {
		e := it.order[it.pos]
		it.pos++
		if e.alive { // entries deleted during iteration are not produced
			return tuple{true, e.key, e.val}
		}
	}
	return tuple{false, nil, nil}
}

func (m *omap) String() string { return fmt.Sprintf("map#%d(len %d)", m.id, m.len()) }
