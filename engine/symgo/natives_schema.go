package symgo

// Stubs for the few pluginsdk/schema functions that are reflection-heavy but
// whose effect on the code under test is plain data construction.

import (
	"go/types"
)

const schemaPkg = "go.flow.arcalot.io/pluginsdk/schema"

func (it *interpreter) newStruct(pkgPath, typeName string, fields map[string]value) (types.Type, *value) {
	p := it.prog.ImportedPackage(pkgPath)
	if p == nil {
		abortf("package %s not loaded", pkgPath)
	}
	obj := p.Pkg.Scope().Lookup(typeName)
	if obj == nil {
		abortf("type %s.%s not found", pkgPath, typeName)
	}
	T := obj.Type()
	st := T.Underlying().(*types.Struct)
	s := zero(T).(structure)
	for i := 0; i < st.NumFields(); i++ {
		if v, ok := fields[st.Field(i).Name()]; ok {
			s[i] = v
			delete(fields, st.Field(i).Name())
		}
	}
	for k := range fields {
		abortf("newStruct: %s has no field %s", typeName, k)
	}
	var cell value = s
	return T, &cell
}

func init() {
	mkCallable := func(dynamic bool) externalFn {
		return func(fr *frame, args []value) value {
			it := fr.i
			var fields map[string]value
			h := args[len(args)-1]
			if dynamic {
				h = args[3]
			}
			hi := h.(iface)
			handler := makeReflectValue(hi.t, hi.v)
			if dynamic {
				fields = map[string]value{"IDValue": args[0], "InputsValue": args[1], "DisplayValue": args[2],
					"OutputsError": true, "Handler": handler, "DynamicTypeHandler": args[4]}
			} else {
				fields = map[string]value{"IDValue": args[0], "InputsValue": args[1], "StaticOutputValue": args[2],
					"OutputsError": args[3], "DisplayValue": args[4], "Handler": handler}
			}
			T, p := it.newStruct(schemaPkg, "CallableFunctionSchema", fields)
			return tuple{iface{types.NewPointer(T), p}, iface{}}
		}
	}
	externals[schemaPkg+".NewCallableFunction"] = mkCallable(false)
	externals[schemaPkg+".NewDynamicCallableFunction"] = mkCallable(true)
}
