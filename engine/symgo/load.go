package symgo

// Front end: go/packages + overlay + SSA build.

import (
	"fmt"
	"go/types"
	"os"
	"path/filepath"
	"sort"
	"strings"
	"sync"

	"golang.org/x/tools/go/packages"
	"golang.org/x/tools/go/ssa"
	"golang.org/x/tools/go/ssa/ssautil"
)

const RepoModule = "go.flow.arcalot.io/engine"
const VerifrtPath = RepoModule + "/internal/verifrt"

type Loaded struct {
	Prog     *ssa.Program
	prog     *ssa.Program
	Pkgs     map[string]*ssa.Package
	InitPkgs []*ssa.Package
	Sizes    types.Sizes
	Overlay  map[string][]byte
	RepoDir  string

	reflectPackage *ssa.Package
	errorMethods   methodSet
	rtypeMethods   methodSet

	verifrt     *ssa.Package
	initSet     map[*ssa.Package]bool
	atomicCache sync.Map
	names       sync.Map
	LoadWall    float64
}

// BuildOverlay maps every file below harnessDir into repoDir (same relative path).
func BuildOverlay(harnessDir, repoDir string) (map[string][]byte, map[string]string, error) {
	ov := map[string][]byte{}
	paths := map[string]string{}
	err := filepath.Walk(harnessDir, func(p string, info os.FileInfo, err error) error {
		if err != nil {
			return err
		}
		if info.IsDir() || !strings.HasSuffix(p, ".go") {
			return nil
		}
		rel, _ := filepath.Rel(harnessDir, p)
		b, err := os.ReadFile(p)
		if err != nil {
			return err
		}
		dst := filepath.Join(repoDir, rel)
		ov[dst] = b
		paths[dst] = p
		return nil
	})
	return ov, paths, err
}

// Load type-checks the patterns (relative to repoDir) with the harness overlay
// and builds SSA with bodies for exactly the packages named by the patterns.
func Load(repoDir string, patterns []string, overlay map[string][]byte, initPkgs []string) (*Loaded, error) {
	// go list -mod=mod may rewrite go.mod (e.g. when a harness imports an indirect
	// dependency directly): give it a scratch copy so /repo is never touched.
	modDir, err := os.MkdirTemp("", "verif-mod-")
	if err != nil {
		return nil, err
	}
	defer os.RemoveAll(modDir)
	for _, f := range []string{"go.mod", "go.sum"} {
		b, err := os.ReadFile(filepath.Join(repoDir, f))
		if err != nil {
			return nil, err
		}
		if err := os.WriteFile(filepath.Join(modDir, f), b, 0o644); err != nil {
			return nil, err
		}
	}
	cfg := &packages.Config{
		Mode:       packages.LoadSyntax,
		Dir:        repoDir,
		Overlay:    overlay,
		BuildFlags: []string{"-tags=verif", "-mod=mod", "-modfile=" + filepath.Join(modDir, "go.mod")},
		Env:        append(os.Environ(), "GOFLAGS=-mod=mod", "GOPROXY=off", "GOSUMDB=off", "GOTOOLCHAIN=local"),
		Tests:      false,
	}
	initial, err := packages.Load(cfg, patterns...)
	if err != nil {
		return nil, err
	}
	nerr := 0
	packages.Visit(initial, nil, func(p *packages.Package) {
		for _, e := range p.Errors {
			fmt.Fprintf(os.Stderr, "load error: %s: %v\n", p.PkgPath, e)
			nerr++
		}
	})
	if nerr > 0 {
		return nil, fmt.Errorf("%d package load errors", nerr)
	}
	prog, pkgs := ssautil.Packages(initial, ssa.InstantiateGenerics)
	// dependencies known only through export data: create body-less SSA packages
	seenT := map[*types.Package]bool{}
	var addDeps func(tp *types.Package)
	addDeps = func(tp *types.Package) {
		if tp == nil || seenT[tp] {
			return
		}
		seenT[tp] = true
		if prog.Package(tp) == nil {
			prog.CreatePackage(tp, nil, nil, true)
		}
		for _, imp := range tp.Imports() {
			addDeps(imp)
		}
	}
	for _, ip := range initial {
		addDeps(ip.Types)
	}
	ld := &Loaded{Prog: prog, Pkgs: map[string]*ssa.Package{}, Overlay: overlay, RepoDir: repoDir,
		Sizes: types.SizesFor("gc", "amd64")}
	for i, p := range pkgs {
		if p != nil {
			ld.Pkgs[initial[i].PkgPath] = p
		}
	}
	ld.initSet = map[*ssa.Package]bool{}
	initReflectOnce(ld)
	prog.Build()
	for _, ip := range initPkgs {
		p := ld.Pkgs[ip]
		if p == nil {
			return nil, fmt.Errorf("init package %s not among the loaded patterns", ip)
		}
		ld.InitPkgs = append(ld.InitPkgs, p)
		ld.initSet[p] = true
	}
	ld.verifrt = ld.Pkgs[VerifrtPath]
	return ld, nil
}

func (ld *Loaded) harnessFunc(h Harness) *ssa.Function {
	p := ld.Pkgs[h.Pkg]
	if p == nil {
		return nil
	}
	return p.Func(h.Func)
}

// Harnesses lists the VerifH_<prop>_ functions found in the loaded packages.
func (ld *Loaded) Harnesses(prefix string) []Harness {
	var res []Harness
	for path, p := range ld.Pkgs {
		for name, m := range p.Members {
			if _, ok := m.(*ssa.Function); ok && strings.HasPrefix(name, prefix) {
				res = append(res, Harness{path, name})
			}
		}
	}
	sort.Slice(res, func(i, j int) bool {
		if res[i].Pkg != res[j].Pkg {
			return res[i].Pkg < res[j].Pkg
		}
		return res[i].Func < res[j].Func
	})
	return res
}

// isAtomicFn: functions of the harness runtime whose name starts with
// "Atomic" (or that are methods of types whose name starts with "Atomic") run
// without scheduling points.
func (ld *Loaded) isAtomicFn(fn *ssa.Function) bool {
	if v, ok := ld.atomicCache.Load(fn); ok {
		return v.(bool)
	}
	r := false
	if strings.HasPrefix(fn.Name(), "verifAtomic") {
		r = true
	}
	if fn.Pkg != nil && fn.Pkg == ld.verifrt {
		n := fn.Name()
		if strings.HasPrefix(n, "Atomic") || strings.HasPrefix(n, "atomic") {
			r = true
		}
		if recv := fn.Signature.Recv(); recv != nil {
			ts := recv.Type().String()
			if strings.Contains(ts, ".Atomic") || strings.Contains(ts, ".atomic") {
				r = true
			}
		}
	}
	ld.atomicCache.Store(fn, r)
	return r
}

func (ld *Loaded) fnName(fn *ssa.Function) string {
	if v, ok := ld.names.Load(fn); ok {
		return v.(string)
	}
	n := fn.String()
	ld.names.Store(fn, n)
	return n
}

// funcByName resolves "import/path.Func".
func (ld *Loaded) funcByName(name string) *ssa.Function {
	i := strings.LastIndex(name, ".")
	if i < 0 {
		return nil
	}
	p := ld.Pkgs[name[:i]]
	if p == nil {
		return nil
	}
	return p.Func(name[i+1:])
}

// isRepoFn: functions of the repository under test (not harness files, not libraries).
func (ld *Loaded) isRepoFn(fn *ssa.Function) bool {
	if fn.Pkg == nil || fn.Pkg == ld.verifrt {
		return false
	}
	if !strings.HasPrefix(fn.Pkg.Pkg.Path(), RepoModule) {
		return false
	}
	pos := ld.Prog.Fset.Position(fn.Pos())
	return !strings.Contains(pos.Filename, "zz_verif")
}
