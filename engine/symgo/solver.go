package symgo

// One persistent SMT solver process per worker, spoken to in SMT-LIB2 text.

import (
	"bufio"
	"fmt"
	"io"
	"os"
	"os/exec"
	"strings"
	"time"
)

type SolverStats struct {
	Queries int
	Sat     int
	Unsat   int
	Unknown int
	Errors  int
	Time    time.Duration
}

type Solver struct {
	auxN int
	name  string
	cmd   *exec.Cmd
	in    io.WriteCloser
	out   *bufio.Reader
	Stats SolverStats
	// log of the current path (declarations + assertions), for cross-checking
	// on a second solver and for writing replay evidence.
	script  []string
	logAll  bool
	dead    bool
	decls   map[string]bool
	scoped  []map[string]bool
	LastErr string
	declLines []string
	frames    [][]string
	FallbackMS int
	Fallbacks  int
	lastModel  map[string]string
}

// SolverCommand returns argv for a named back end.
func SolverCommand(name string, timeoutMS int) []string {
	switch name {
	case "z3-new":
		return []string{"z3-new", "-in", fmt.Sprintf("-t:%d", timeoutMS)}
	case "cvc5":
		return []string{"cvc5", "--incremental", "--lang=smt2", "--strings-exp", fmt.Sprintf("--tlimit-per=%d", timeoutMS), "--produce-models"}
	default:
		return []string{"z3", "-in", fmt.Sprintf("-t:%d", timeoutMS)}
	}
}

func NewSolver(name string, timeoutMS int) (*Solver, error) {
	argv := SolverCommand(name, timeoutMS)
	cmd := exec.Command(argv[0], argv[1:]...)
	in, err := cmd.StdinPipe()
	if err != nil {
		return nil, err
	}
	out, err := cmd.StdoutPipe()
	if err != nil {
		return nil, err
	}
	cmd.Stderr = nil
	if err := cmd.Start(); err != nil {
		return nil, err
	}
	s := &Solver{name: name, cmd: cmd, in: in, out: bufio.NewReaderSize(out, 1<<16)}
	s.Reset()
	return s, nil
}

func (s *Solver) Close() {
	if s == nil || s.cmd == nil {
		return
	}
	s.in.Close()
	s.cmd.Process.Kill()
	s.cmd.Wait()
}

func (s *Solver) send(line string) {
	if s.dead {
		return
	}
	if _, err := io.WriteString(s.in, line+"\n"); err != nil {
		s.dead = true
		s.LastErr = err.Error()
	}
}

// Reset clears all assertions and declarations (start of a path).
func (s *Solver) Reset() {
	s.send("(reset)")
	if s.name == "cvc5" {
		s.send("(set-logic ALL)")
	}
	s.send("(set-option :produce-models true)")
	s.script = s.script[:0]
	s.decls = map[string]bool{}
	s.scoped = nil
	s.declLines = nil
	s.frames = [][]string{nil}
	s.auxN = 0
}

func (s *Solver) record(line string) {
	s.script = append(s.script, line)
}

// Script returns the SMT-LIB text of everything sent on this path.
func (s *Solver) Script() string { return strings.Join(s.script, "\n") }

func (s *Solver) Declare(name string, sort Sort) {
	if s.decls[name] {
		return
	}
	s.decls[name] = true
	l := fmt.Sprintf("(declare-const %s %s)", name, sort)
	s.declLines = append(s.declLines, l)
	s.record(l)
	s.send(l)
}

// Name introduces a fresh constant equal to term and returns its name: keeps the terms of the string /
// integer models small (the solvers do much better on named sub-terms than on the inlined copies).
func (s *Solver) Name(sort Sort, term string) string {
	s.auxN++
	n := fmt.Sprintf("|$aux%d|", s.auxN)
	s.Declare(n, sort)
	s.Assert("(= " + n + " " + term + ")")
	return n
}

func (s *Solver) DeclareFun(name string, args []Sort, res Sort) {
	if s.decls[name] {
		return
	}
	s.decls[name] = true
	as := make([]string, len(args))
	for i, a := range args {
		as[i] = a.String()
	}
	l := fmt.Sprintf("(declare-fun %s (%s) %s)", name, strings.Join(as, " "), res)
	s.declLines = append(s.declLines, l)
	s.record(l)
	s.send(l)
}

func (s *Solver) Assert(term string) {
	l := "(assert " + term + ")"
	s.frames[len(s.frames)-1] = append(s.frames[len(s.frames)-1], l)
	s.record(l)
	s.send(l)
}

func (s *Solver) Push() { s.frames = append(s.frames, nil); s.record("(push 1)"); s.send("(push 1)") }
func (s *Solver) Pop() {
	if len(s.frames) > 1 {
		s.frames = s.frames[:len(s.frames)-1]
	}
	s.record("(pop 1)")
	s.send("(pop 1)")
}

// FlatScript is the current assertion stack as a non-incremental script.
func (s *Solver) FlatScript() string {
	var b strings.Builder
	for _, d := range s.declLines {
		b.WriteString(d)
		b.WriteByte('\n')
	}
	for _, f := range s.frames {
		for _, a := range f {
			b.WriteString(a)
			b.WriteByte('\n')
		}
	}
	return b.String()
}

// readLine reads one non-empty response line.
func (s *Solver) readLine() string {
	for {
		line, err := s.out.ReadString('\n')
		if err != nil {
			s.dead = true
			s.LastErr = "solver died: " + err.Error()
			return "(error \"solver died\")"
		}
		line = strings.TrimSpace(line)
		if line != "" {
			return line
		}
	}
}

// readSexp reads one balanced s-expression (possibly spanning lines).
func (s *Solver) readSexp() string {
	var b strings.Builder
	depth := 0
	started := false
	inStr := false
	for {
		c, err := s.out.ReadByte()
		if err != nil {
			s.dead = true
			return b.String()
		}
		if !started {
			if c == ' ' || c == '\n' || c == '\r' || c == '\t' {
				continue
			}
			started = true
			if c != '(' {
				// atom: read to end of line
				rest, _ := s.out.ReadString('\n')
				return string(c) + strings.TrimSpace(rest)
			}
		}
		b.WriteByte(c)
		if inStr {
			if c == '"' {
				inStr = false
			}
			continue
		}
		switch c {
		case '"':
			inStr = true
		case '(':
			depth++
		case ')':
			depth--
			if depth == 0 {
				return b.String()
			}
		}
	}
}

// Check runs (check-sat) and returns "sat", "unsat" or "unknown". Any error
// line from the solver is reported as "unknown" (inconclusive), never as a verdict.
func (s *Solver) Check() string {
	s.lastModel = nil
	r := s.checkIncremental()
	if r != "unknown" || s.FallbackMS <= 0 {
		return r
	}
	// The incremental engine gave up: decide the same assertion stack with
	// fresh non-incremental processes (different tactics, other solvers).
	flat := s.FlatScript()
	for _, be := range []string{"z3", "z3-new", "cvc5"} {
		t0 := time.Now()
		v := oneShotVerdict(be, flat, s.FallbackMS)
		s.Stats.Time += time.Since(t0)
		if v == "sat" || v == "unsat" {
			s.Fallbacks++
			s.Stats.Unknown--
			if v == "sat" {
				s.Stats.Sat++
				s.lastModel = map[string]string{"@backend": be}
			} else {
				s.Stats.Unsat++
			}
			return v
		}
	}
	return "unknown"
}

func oneShotVerdict(backend, flat string, timeoutMS int) string {
	res, err := OneShot(backend, flat+"(check-sat)\n", timeoutMS)
	if d := os.Getenv("SYMGO_DUMP_UNKNOWN"); d != "" && (err != nil || len(res) == 0 || (res[len(res)-1] != "sat" && res[len(res)-1] != "unsat")) {
		os.WriteFile(fmt.Sprintf("%s/fallback-%s-%d.smt2", d, backend, time.Now().UnixNano()), []byte(fmt.Sprintf("; verdicts %v err %v\n%s(check-sat)\n", res, err, flat)), 0o644)
	}
	if err != nil || len(res) == 0 {
		return "unknown"
	}
	for _, r := range res {
		if strings.HasPrefix(r, "(error") {
			return "unknown"
		}
	}
	return res[len(res)-1]
}

func (s *Solver) checkIncremental() string {
	if s.dead {
		return "unknown"
	}
	s.record("(check-sat)")
	t0 := time.Now()
	s.send("(check-sat)")
	s.send("(echo \"@@done\")")
	r := ""
	sawErr := false
	for {
		l := s.readLine()
		if strings.Contains(l, "@@done") {
			break
		}
		if s.dead {
			break
		}
		switch {
		case l == "sat" || l == "unsat" || l == "unknown" || l == "timeout":
			r = l
		case strings.HasPrefix(l, "(error"):
			sawErr = true
			s.LastErr = l
		}
	}
	s.Stats.Time += time.Since(t0)
	s.Stats.Queries++
	if sawErr || s.dead {
		s.Stats.Errors++
		return "unknown"
	}
	switch r {
	case "sat":
		s.Stats.Sat++
	case "unsat":
		s.Stats.Unsat++
	default:
		r = "unknown"
		s.Stats.Unknown++
		if d := os.Getenv("SYMGO_DUMP_UNKNOWN"); d != "" {
			os.MkdirAll(d, 0o755)
			os.WriteFile(fmt.Sprintf("%s/unk-%d-%d.smt2", d, os.Getpid(), time.Now().UnixNano()), []byte(s.Script()+"\n"), 0o644)
		}
	}
	return r
}

// CheckWith asks whether the current assertions plus extra are satisfiable.
func (s *Solver) CheckWith(extra string) string {
	s.Push()
	s.Assert(extra)
	r := s.Check()
	s.Pop()
	return r
}

// GetValues returns the model values of the given constant names after a sat
// answer (must be called before the scope is popped).
func (s *Solver) GetValues(names []string) map[string]string {
	res := map[string]string{}
	if s.dead || len(names) == 0 {
		return res
	}
	if s.lastModel != nil {
		be := s.lastModel["@backend"]
		script := "(set-option :produce-models true)\n" + s.FlatScript() + "(check-sat)\n"
		for _, n := range names {
			script += "(get-value (" + n + "))\n"
		}
		argv := SolverCommand(be, s.FallbackMS)
		cmd := exec.Command(argv[0], argv[1:]...)
		pre := ""
		if be == "cvc5" {
			pre = "(set-logic ALL)\n"
		}
		cmd.Stdin = strings.NewReader(pre + script + "(exit)\n")
		out, _ := cmd.Output()
		txt := string(out)
		for _, n := range names {
			key := "((" + n + " "
			if i := strings.Index(txt, key); i >= 0 {
				rest := txt[i+len(key):]
				depth := 0
				for j := 0; j < len(rest); j++ {
					if rest[j] == '(' {
						depth++
					} else if rest[j] == ')' {
						if depth == 0 {
							res[n] = strings.TrimSpace(rest[:j])
							break
						}
						depth--
					}
				}
			}
		}
		return res
	}
	for _, n := range names {
		s.send("(get-value (" + n + "))")
		sx := s.readSexp()
		// ((name value))
		sx = strings.TrimSpace(sx)
		if strings.HasPrefix(sx, "(error") {
			continue
		}
		inner := strings.TrimSuffix(strings.TrimPrefix(sx, "(("), "))")
		inner = strings.TrimSpace(strings.TrimPrefix(inner, n))
		res[n] = strings.TrimSpace(inner)
	}
	return res
}

// OneShot runs a whole script on a fresh process of the named solver and
// returns the answers to its check-sat commands (used to diff solvers).
func OneShot(name string, script string, timeoutMS int) ([]string, error) {
	argv := SolverCommand(name, timeoutMS)
	cmd := exec.Command(argv[0], argv[1:]...)
	pre := ""
	if name == "cvc5" {
		pre = "(set-logic ALL)\n"
	}
	cmd.Stdin = strings.NewReader(pre + script + "\n(exit)\n")
	out, err := cmd.Output()
	var res []string
	for _, l := range strings.Split(string(out), "\n") {
		l = strings.TrimSpace(l)
		if l == "sat" || l == "unsat" || l == "unknown" || l == "timeout" || strings.HasPrefix(l, "(error") {
			res = append(res, l)
		}
	}
	if len(res) > 0 {
		err = nil
	}
	return res, err
}
