package symgo

// SMT-level definitions of the strconv / strings functions that the built-in
// expression functions wrap, used when an argument is a term.  Each definition
// follows the documented behaviour of the Go function; where only the output
// grammar is modelled (FormatFloat digits) that is stated.

import (
	"fmt"
	"regexp"
	"strconv"
	"strings"
)

const strBound = 6 // symbolic strings passed to ToLower/ToUpper are bounded to this many ASCII characters

func symOrHost(host externalFn, sym func(fr *frame, args []value) value) externalFn {
	return func(fr *frame, args []value) value {
		for _, a := range args {
			if isSym(a) {
				return sym(fr, args)
			}
		}
		return host(fr, args)
	}
}

// intTerm is the signed mathematical integer denoted by a 64-bit term.
func intTerm(x *Sym) string {
	return app("ite", app("bvslt", x.e, bvLit(64, 0)), app("-", app("bv2nat", x.e), "18446744073709551616"), app("bv2nat", x.e))
}

// decompose case-splits a symbolic string on its length (0..strBound; longer strings are outside the
// claim and end the path) and names its characters as integer code points 0..127, so that per-character
// functions become integer arithmetic (the string solvers do badly on nested str.at / ite chains).
func (it *interpreter) decompose(fr *frame, s *Sym) []string {
	if it.strChars == nil {
		it.strChars = map[string][]string{}
	}
	if d, ok := it.strChars[s.e]; ok {
		return d
	}
	it.res.strBounded = true
	for k := 0; k <= strBound; k++ {
		cond := &Sym{SBool, app("=", app("str.len", s.e), fmt.Sprint(k))}
		if k == strBound {
			it.assume(fr, cond)
		} else if !it.branch(fr, cond) {
			continue
		}
		sv := it.solver
		chars := make([]string, k)
		parts := make([]string, k)
		for i := range chars {
			sv.auxN++
			c := fmt.Sprintf("|$aux%d|", sv.auxN)
			sv.Declare(c, SInt)
			sv.Assert(app("and", app(">=", c, "0"), app("<=", c, "127")))
			chars[i] = c
			parts[i] = app("str.from_code", c)
		}
		sv.Assert(app("=", s.e, concatTerm(parts)))
		it.strChars[s.e] = chars
		return chars
	}
	return nil
}

func intLit(n int) string {
	if n < 0 {
		return fmt.Sprintf("(- %d)", -n)
	}
	return fmt.Sprint(n)
}

func concatTerm(parts []string) string {
	switch len(parts) {
	case 0:
		return `""`
	case 1:
		return parts[0]
	}
	return app("str.++", parts...)
}

// caseMap maps every character in [lo,hi] by delta; the result is a named string whose characters are known.
func (it *interpreter) caseMap(fr *frame, s *Sym, lo, hi, delta int) *Sym {
	chars := it.decompose(fr, s)
	mapped := make([]string, len(chars))
	parts := make([]string, len(chars))
	for i, c := range chars {
		m := app("ite", app("and", app("<=", fmt.Sprint(lo), c), app("<=", c, fmt.Sprint(hi))), app("+", c, intLit(delta)), c)
		mapped[i] = it.solver.Name(SInt, m)
		parts[i] = it.solver.Name(SStr, app("str.from_code", mapped[i]))
		// valid lemmas tying the character classes of the one-character string to its code point
		it.solver.Assert(app("=", app("str.len", parts[i]), "1"))
		it.solver.Assert(app("=", app("str.in_re", parts[i], `(re.range "A" "Z")`), app("and", app("<=", "65", mapped[i]), app("<=", mapped[i], "90"))))
		it.solver.Assert(app("=", app("str.in_re", parts[i], `(re.range "a" "z")`), app("and", app("<=", "97", mapped[i]), app("<=", mapped[i], "122"))))
	}
	r := it.solver.Name(SStr, concatTerm(parts))
	it.strChars[r] = mapped
	return &Sym{SStr, r}
}

func init() {
	externals["strconv.FormatInt"] = symOrHost(native(strconv.FormatInt), func(fr *frame, args []value) value {
		if isSym(args[1]) || asInt64(args[1]) != 10 {
			abortf("symbolic strconv.FormatInt supports base 10 only")
		}
		x := lift(args[0])
		sv := fr.i.solver
		// n is the signed value of x, introduced definitionally without bv2nat (the solvers cannot mix
		// bv2nat with the string theory): the unique integer in [-2^63, 2^63) whose two's complement is x
		sv.auxN++
		n := fmt.Sprintf("|$aux%d|", sv.auxN)
		sv.Declare(n, SInt)
		sv.Assert(app("and", app(">=", n, "(- 9223372036854775808)"), app("<=", n, "9223372036854775807")))
		sv.Assert(app("=", app("(_ int2bv 64)", n), x.e))
		// valid lemmas about the decimal numeral of |n| (they only help the string solver)
		absn := sv.Name(SInt, app("ite", app("<", n, "0"), app("-", n), n))
		num := sv.Name(SStr, app("str.from_int", absn))
		sv.Assert(app("=", app("str.to_int", num), absn))
		sv.Assert(app("not", app("str.prefixof", `"-"`, num)))
		sv.Assert(app("not", app("str.prefixof", `"+"`, num)))
		sv.Assert(app(">=", app("str.len", num), "1"))
		sv.Assert(app("str.in_re", num, `(re.+ (re.range "0" "9"))`))
		return &Sym{SStr, sv.Name(SStr, app("ite", app("<", n, "0"), app("str.++", `"-"`, num), num))}
	})
	externals["strconv.ParseInt"] = symOrHost(native(strconv.ParseInt), func(fr *frame, args []value) value {
		it := fr.i
		if isSym(args[1]) || isSym(args[2]) || asInt64(args[1]) != 10 {
			abortf("symbolic strconv.ParseInt supports concrete base 10 only")
		}
		bits := asInt64(args[2])
		if bits != 0 && bits != 64 {
			abortf("symbolic strconv.ParseInt supports bit sizes 0 and 64")
		}
		s := lift(args[0])
		neg := app("str.prefixof", `"-"`, s.e)
		plus := app("str.prefixof", `"+"`, s.e)
		digits := it.solver.Name(SStr, app("ite", app("or", neg, plus), app("str.substr", s.e, "1", app("-", app("str.len", s.e), "1")), s.e))
		n := it.solver.Name(SInt, app("str.to_int", digits)) // -1 unless digits is a non-empty digit string
		inRange := app("ite", neg, app("<=", n, "9223372036854775808"), app("<=", n, "9223372036854775807"))
		ok := &Sym{SBool, app("and", app(">=", n, "0"), inRange)}
		if it.branch(fr.caller, ok) {
			v := app("ite", neg, app("-", n), n)
			return tuple{&Sym{SBV64, app("(_ int2bv 64)", v)}, iface{}}
		}
		// syntax error => 0; range error => clamped value. Both with a non-nil error.
		syn := &Sym{SBool, app("<", n, "0")}
		if it.branch(fr.caller, syn) {
			return tuple{int64(0), it.mkError("strconv.ParseInt: parsing <sym>: invalid syntax", nil)}
		}
		return tuple{&Sym{SBV64, app("ite", neg, bvLit(64, 1<<63), bvLit(64, 1<<63-1))}, it.mkError("strconv.ParseInt: parsing <sym>: value out of range", nil)}
	})
	externals["strconv.FormatBool"] = symOrHost(native(strconv.FormatBool), func(fr *frame, args []value) value {
		return &Sym{SStr, app("ite", lift(args[0]).e, `"true"`, `"false"`)}
	})
	externals["strconv.ParseBool"] = symOrHost(native(strconv.ParseBool), func(fr *frame, args []value) value {
		it := fr.i
		s := lift(args[0])
		in := func(vals ...string) *Sym {
			var p []string
			for _, v := range vals {
				p = append(p, app("=", s.e, strLit(v)))
			}
			return &Sym{SBool, app("or", p...)}
		}
		if it.branch(fr.caller, in("1", "t", "T", "TRUE", "true", "True")) {
			return tuple{true, iface{}}
		}
		if it.branch(fr.caller, in("0", "f", "F", "FALSE", "false", "False")) {
			return tuple{false, iface{}}
		}
		return tuple{false, it.mkError("strconv.ParseBool: parsing <sym>: invalid syntax", nil)}
	})
	externals["strings.ToLower"] = symOrHost(native(strings.ToLower), func(fr *frame, args []value) value {
		s := lift(args[0])
		return fr.i.caseMap(fr.caller, s, 'A', 'Z', 32)
	})
	externals["strings.ToUpper"] = symOrHost(native(strings.ToUpper), func(fr *frame, args []value) value {
		s := lift(args[0])
		return fr.i.caseMap(fr.caller, s, 'a', 'z', -32)
	})
	// FormatFloat on a term: the result is a fresh string constrained by the
	// documented output grammar of the verb, tied to the class of the input
	// (NaN / infinities / sign / integrality). The decimal digits themselves are
	// not modelled (shortest-representation algorithms are outside the encoding).
	externals["strconv.FormatFloat"] = symOrHost(native(strconv.FormatFloat), func(fr *frame, args []value) value {
		it := fr.i
		a := lift(args[0])
		if isSym(args[1]) || isSym(args[2]) || isSym(args[3]) {
			abortf("symbolic strconv.FormatFloat needs concrete verb, precision and bit size")
		}
		verb := byte(asInt64(args[1]))
		prec := int(asInt64(args[2]))
		out := it.newNondet("FormatFloat.out", SStr, "string").(*Sym)
		d := app("re.range", `"0"`, `"9"`)
		dp := app("re.+", d)
		frac := func() string {
			switch {
			case prec < 0:
				return app("re.opt", app("re.++", app("str.to_re", `"."`), dp))
			case prec == 0:
				return app("str.to_re", `""`)
			}
			return app("re.++", app("str.to_re", `"."`), app(fmt.Sprintf("(_ re.^ %d)", prec), d))
		}
		sign := app("re.union", app("str.to_re", `"+"`), app("str.to_re", `"-"`))
		exp := func(e string) string {
			// "at least two digits"; the largest binary64 decimal exponent has three
			return app("re.++", app("str.to_re", strLit(e)), sign, app("(_ re.loop 2 3)", d))
		}
		var mant string
		switch verb {
		case 'f':
			mant = app("re.++", dp, frac())
		case 'e', 'E':
			mant = app("re.++", d, frac(), exp(string(verb)))
		case 'g', 'G':
			e := "e"
			if verb == 'G' {
				e = "E"
			}
			anyfrac := app("re.opt", app("re.++", app("str.to_re", `"."`), dp))
			mant = app("re.union", app("re.++", dp, anyfrac), app("re.++", d, anyfrac, exp(e)))
		default:
			abortf("symbolic strconv.FormatFloat: verb %q is evaluated on concrete values only", verb)
		}
		neg := app("fp.isNegative", a.e)
		finite := app("not", app("or", app("fp.isNaN", a.e), app("fp.isInfinite", a.e)))
		body := app("ite", neg, app("re.++", app("str.to_re", `"-"`), mant), mant)
		_ = body
		it.assume(fr.caller, &Sym{SBool, app("=>", app("fp.isNaN", a.e), app("=", out.e, `"NaN"`))})
		it.assume(fr.caller, &Sym{SBool, app("=>", app("and", app("fp.isInfinite", a.e), app("fp.isPositive", a.e)), app("=", out.e, `"+Inf"`))})
		it.assume(fr.caller, &Sym{SBool, app("=>", app("and", app("fp.isInfinite", a.e), neg), app("=", out.e, `"-Inf"`))})
		it.assume(fr.caller, &Sym{SBool, app("=>", app("and", finite, neg), app("str.in_re", out.e, app("re.++", app("str.to_re", `"-"`), mant)))})
		it.assume(fr.caller, &Sym{SBool, app("=>", app("and", finite, app("not", neg)), app("str.in_re", out.e, mant))})
		if verb == 'f' && prec < 0 {
			integral := app("fp.eq", app("fp.roundToIntegral", "RTZ", a.e), a.e)
			it.assume(fr.caller, &Sym{SBool, app("=>", app("and", finite, integral), app("not", app("str.contains", out.e, `"."`)))})
			it.assume(fr.caller, &Sym{SBool, app("=>", app("and", finite, app("not", integral)), app("str.contains", out.e, `"."`))})
		}
		return out
	})
	// verifrt.MatchGoRegex(s, pattern): regexp.MatchString with a concrete pattern.
	externals[VerifrtPath+".MatchGoRegex"] = func(fr *frame, args []value) value {
		pat, ok := args[1].(string)
		if !ok {
			abortf("MatchGoRegex needs a concrete pattern")
		}
		if s, ok := args[0].(*Sym); ok {
			rl, err := GoRegexToSMT(pat)
			if err != nil {
				abortf("MatchGoRegex: %v", err)
			}
			return &Sym{SBool, app("str.in_re", s.e, rl)}
		}
		m, err := regexp.MatchString(pat, args[0].(string))
		if err != nil {
			abortf("MatchGoRegex: %v", err)
		}
		return m
	}
}
