package symgo

// Translation of Go regular expressions (regexp/syntax) to SMT-LIB RegLan,
// with regexp.MatchString's unanchored-search semantics.

import (
	"fmt"
	"regexp/syntax"
	"strings"
	"unicode"
)

func charLit(r rune) string {
	if r >= 0x20 && r < 0x7f && r != '"' && r != '\\' {
		return `"` + string(r) + `"`
	}
	return fmt.Sprintf(`"\u{%x}"`, r)
}

func reRange(lo, hi rune) string {
	if hi > 0x2ffff {
		hi = 0x2ffff
	}
	if lo > hi {
		return "re.none"
	}
	if lo == hi {
		return app("str.to_re", charLit(lo))
	}
	return app("re.range", charLit(lo), charLit(hi))
}

func reUnion(parts []string) string {
	switch len(parts) {
	case 0:
		return "re.none"
	case 1:
		return parts[0]
	}
	return app("re.union", parts...)
}

func reConcat(parts []string) string {
	switch len(parts) {
	case 0:
		return app("str.to_re", `""`)
	case 1:
		return parts[0]
	}
	return app("re.++", parts...)
}

func reBody(re *syntax.Regexp) (string, error) {
	switch re.Op {
	case syntax.OpEmptyMatch:
		return app("str.to_re", `""`), nil
	case syntax.OpLiteral:
		var parts []string
		for _, r := range re.Rune {
			if re.Flags&syntax.FoldCase != 0 {
				alts := []string{app("str.to_re", charLit(r))}
				for f := unicode.SimpleFold(r); f != r; f = unicode.SimpleFold(f) {
					alts = append(alts, app("str.to_re", charLit(f)))
				}
				parts = append(parts, reUnion(alts))
			} else {
				parts = append(parts, app("str.to_re", charLit(r)))
			}
		}
		return reConcat(parts), nil
	case syntax.OpCharClass:
		var parts []string
		for i := 0; i+1 < len(re.Rune); i += 2 {
			parts = append(parts, reRange(re.Rune[i], re.Rune[i+1]))
		}
		return reUnion(parts), nil
	case syntax.OpAnyChar:
		return "re.allchar", nil
	case syntax.OpAnyCharNotNL:
		return app("re.union", reRange(0, 9), reRange(11, 0x2ffff)), nil
	case syntax.OpCapture:
		return reBody(re.Sub[0])
	case syntax.OpStar:
		s, err := reBody(re.Sub[0])
		return app("re.*", s), err
	case syntax.OpPlus:
		s, err := reBody(re.Sub[0])
		return app("re.+", s), err
	case syntax.OpQuest:
		s, err := reBody(re.Sub[0])
		return app("re.opt", s), err
	case syntax.OpRepeat:
		s, err := reBody(re.Sub[0])
		if err != nil {
			return "", err
		}
		if re.Max < 0 {
			return app("re.++", app(fmt.Sprintf("(_ re.^ %d)", re.Min), s), app("re.*", s)), nil
		}
		return app(fmt.Sprintf("(_ re.loop %d %d)", re.Min, re.Max), s), nil
	case syntax.OpConcat:
		var parts []string
		for _, sub := range re.Sub {
			s, err := reBody(sub)
			if err != nil {
				return "", err
			}
			parts = append(parts, s)
		}
		return reConcat(parts), nil
	case syntax.OpAlternate:
		var parts []string
		for _, sub := range re.Sub {
			s, err := reBody(sub)
			if err != nil {
				return "", err
			}
			parts = append(parts, s)
		}
		return reUnion(parts), nil
	}
	return "", fmt.Errorf("unsupported regexp construct %v inside %q", re.Op, re.String())
}

func stripCaptures(re *syntax.Regexp) *syntax.Regexp {
	for re.Op == syntax.OpCapture {
		re = re.Sub[0]
	}
	return re
}

// GoRegexToSMT returns the RegLan of all strings s with regexp.MatchString(pattern, s).
func GoRegexToSMT(pattern string) (string, error) {
	re, err := syntax.Parse(pattern, syntax.Perl)
	if err != nil {
		return "", err
	}
	top := stripCaptures(re)
	alts := []*syntax.Regexp{top}
	if top.Op == syntax.OpAlternate {
		alts = top.Sub
	}
	var res []string
	for _, a := range alts {
		a = stripCaptures(a)
		items := []*syntax.Regexp{a}
		if a.Op == syntax.OpConcat {
			items = a.Sub
		}
		start, end := false, false
		for len(items) > 0 && items[0].Op == syntax.OpBeginText {
			start = true
			items = items[1:]
		}
		for len(items) > 0 && items[len(items)-1].Op == syntax.OpEndText {
			end = true
			items = items[:len(items)-1]
		}
		var parts []string
		if !start {
			parts = append(parts, "re.all")
		}
		for _, it := range items {
			s, err := reBody(it)
			if err != nil {
				return "", err
			}
			parts = append(parts, s)
		}
		if !end {
			parts = append(parts, "re.all")
		}
		res = append(res, reConcat(parts))
	}
	out := reUnion(res)
	if strings.Contains(out, "OpBegin") {
		return "", fmt.Errorf("unsupported anchor placement in %q", pattern)
	}
	return out, nil
}
