// Copyright 2013 The Go Authors. All rights reserved.
// Use of this source code is governed by a BSD-style
// license that can be found in the LICENSE file.

package symgo

// Emulated functions that we cannot interpret because they are
// external or because they use "unsafe" or "reflect" operations.

import (
	"bytes"
	"math"
	"os"
	"runtime"
	"sort"
	"strconv"
	"strings"
	"time"
	"unicode/utf8"
)

type externalFn func(fr *frame, args []value) value

// TODO(adonovan): fix: reflect.Value abstracts an lvalue or an
// rvalue; Set() causes mutations that can be observed via aliases.
// We have not captured that correctly here.

// Key strings are from Function.String().
var externals = make(map[string]externalFn)

func init() {
	// That little dot ۰ is an Arabic zero numeral (U+06F0), categories [Nd].
	for k, v := range map[string]externalFn{
		"(reflect.Value).Bool":            ext۰reflect۰Value۰Bool,
		"(reflect.Value).CanAddr":         ext۰reflect۰Value۰CanAddr,
		"(reflect.Value).CanInterface":    ext۰reflect۰Value۰CanInterface,
		"(reflect.Value).Elem":            ext۰reflect۰Value۰Elem,
		"(reflect.Value).Field":           ext۰reflect۰Value۰Field,
		"(reflect.Value).FieldByName":     ext۰reflect۰Value۰FieldByName,
		"reflect.Indirect":                ext۰reflect۰Indirect,
		"(reflect.Value).Float":           ext۰reflect۰Value۰Float,
		"(reflect.Value).Index":           ext۰reflect۰Value۰Index,
		"(reflect.Value).Int":             ext۰reflect۰Value۰Int,
		"(reflect.Value).Interface":       ext۰reflect۰Value۰Interface,
		"(reflect.Value).IsNil":           ext۰reflect۰Value۰IsNil,
		"(reflect.Value).IsValid":         ext۰reflect۰Value۰IsValid,
		"(reflect.Value).IsZero":          ext۰reflect۰Value۰IsZero,
		"(reflect.Value).Kind":            ext۰reflect۰Value۰Kind,
		"(reflect.Value).CanInt":          ext۰reflect۰Value۰CanInt,
		"(reflect.Value).CanUint":         ext۰reflect۰Value۰CanUint,
		"(reflect.Value).CanFloat":        ext۰reflect۰Value۰CanFloat,
		"(reflect.Value).Len":             ext۰reflect۰Value۰Len,
		"(reflect.Value).MapIndex":        ext۰reflect۰Value۰MapIndex,
		"(reflect.Value).MapKeys":         ext۰reflect۰Value۰MapKeys,
		"(reflect.Value).NumField":        ext۰reflect۰Value۰NumField,
		"(reflect.Value).NumMethod":       ext۰reflect۰Value۰NumMethod,
		"(reflect.Value).Pointer":         ext۰reflect۰Value۰Pointer,
		"(reflect.Value).Set":             ext۰reflect۰Value۰Set,
		"(reflect.Value).String":          ext۰reflect۰Value۰String,
		"(reflect.Value).Type":            ext۰reflect۰Value۰Type,
		"(reflect.Value).Uint":            ext۰reflect۰Value۰Uint,
		"(reflect.error).Error":           ext۰reflect۰error۰Error,
		"(reflect.rtype).Bits":            ext۰reflect۰rtype۰Bits,
		"(reflect.rtype).Elem":            ext۰reflect۰rtype۰Elem,
		"(reflect.rtype).Field":           ext۰reflect۰rtype۰Field,
		"(reflect.rtype).In":              ext۰reflect۰rtype۰In,
		"(reflect.rtype).Kind":            ext۰reflect۰rtype۰Kind,
		"(reflect.rtype).NumField":        ext۰reflect۰rtype۰NumField,
		"(reflect.rtype).NumIn":           ext۰reflect۰rtype۰NumIn,
		"(reflect.rtype).NumMethod":       ext۰reflect۰rtype۰NumMethod,
		"(reflect.rtype).NumOut":          ext۰reflect۰rtype۰NumOut,
		"(reflect.rtype).Out":             ext۰reflect۰rtype۰Out,
		"(reflect.rtype).Size":            ext۰reflect۰rtype۰Size,
		"(reflect.rtype).String":          ext۰reflect۰rtype۰String,
		"bytes.Equal":                     ext۰bytes۰Equal,
		"bytes.IndexByte":                 ext۰bytes۰IndexByte,
		"math.Abs":                        ext۰math۰Abs,
		"math.Copysign":                   ext۰math۰Copysign,
		"math.Exp":                        ext۰math۰Exp,
		"math.Float32bits":                ext۰math۰Float32bits,
		"math.Float32frombits":            ext۰math۰Float32frombits,
		"math.Float64bits":                ext۰math۰Float64bits,
		"math.Float64frombits":            ext۰math۰Float64frombits,
		"math.Inf":                        ext۰math۰Inf,
		"math.IsNaN":                      ext۰math۰IsNaN,
		"math.Ldexp":                      ext۰math۰Ldexp,
		"math.Log":                        ext۰math۰Log,
		"math.Min":                        ext۰math۰Min,
		"math.NaN":                        ext۰math۰NaN,
		"math.Sqrt":                       ext۰math۰Sqrt,
		"reflect.New":                     ext۰reflect۰New,
		"reflect.SliceOf":                 ext۰reflect۰SliceOf,
		"reflect.TypeOf":                  ext۰reflect۰TypeOf,
		"reflect.ValueOf":                 ext۰reflect۰ValueOf,
		"reflect.Zero":                    ext۰reflect۰Zero,
		"sort.Float64s":                   ext۰sort۰Float64s,
		"sort.Ints":                       ext۰sort۰Ints,
		"sort.Strings":                    ext۰sort۰Strings,
		"strconv.Atoi":                    ext۰strconv۰Atoi,
		"strconv.Itoa":                    ext۰strconv۰Itoa,
		"strconv.FormatFloat":             ext۰strconv۰FormatFloat,
		"strings.Count":                   ext۰strings۰Count,
		"strings.EqualFold":               ext۰strings۰EqualFold,
		"strings.Index":                   ext۰strings۰Index,
		"strings.IndexByte":               ext۰strings۰IndexByte,
		"strings.Replace":                 ext۰strings۰Replace,
		"strings.ToLower":                 ext۰strings۰ToLower,
		"unicode/utf8.DecodeRuneInString": ext۰unicode۰utf8۰DecodeRuneInString,
	} {
		externals[k] = v
	}
}

func ext۰bytes۰Equal(fr *frame, args []value) value {
	// func Equal(a, b []byte) bool
	a := args[0].([]value)
	b := args[1].([]value)
	if len(a) != len(b) {
		return false
	}
	for i := range a {
		if a[i] != b[i] {
			return false
		}
	}
	return true
}

func ext۰bytes۰IndexByte(fr *frame, args []value) value {
	// func IndexByte(s []byte, c byte) int
	s := args[0].([]value)
	c := args[1].(byte)
	for i, b := range s {
		if b.(byte) == c {
			return i
		}
	}
	return -1
}

func ext۰math۰Float64frombits(fr *frame, args []value) value {
	return math.Float64frombits(args[0].(uint64))
}

func ext۰math۰Float64bits(fr *frame, args []value) value {
	return math.Float64bits(args[0].(float64))
}

func ext۰math۰Float32frombits(fr *frame, args []value) value {
	return math.Float32frombits(args[0].(uint32))
}

func ext۰math۰Abs(fr *frame, args []value) value {
	return math.Abs(args[0].(float64))
}

func ext۰math۰Copysign(fr *frame, args []value) value {
	return math.Copysign(args[0].(float64), args[1].(float64))
}

func ext۰math۰Exp(fr *frame, args []value) value {
	return math.Exp(args[0].(float64))
}

func ext۰math۰Float32bits(fr *frame, args []value) value {
	return math.Float32bits(args[0].(float32))
}

func ext۰math۰Min(fr *frame, args []value) value {
	return math.Min(args[0].(float64), args[1].(float64))
}

func ext۰math۰NaN(fr *frame, args []value) value {
	return math.NaN()
}

func ext۰math۰IsNaN(fr *frame, args []value) value {
	return math.IsNaN(args[0].(float64))
}

func ext۰math۰Inf(fr *frame, args []value) value {
	return math.Inf(args[0].(int))
}

func ext۰math۰Ldexp(fr *frame, args []value) value {
	return math.Ldexp(args[0].(float64), args[1].(int))
}

func ext۰math۰Log(fr *frame, args []value) value {
	return math.Log(args[0].(float64))
}

func ext۰math۰Sqrt(fr *frame, args []value) value {
	return math.Sqrt(args[0].(float64))
}

func ext۰runtime۰Breakpoint(fr *frame, args []value) value {
	runtime.Breakpoint()
	return nil
}

func ext۰sort۰Ints(fr *frame, args []value) value {
	x := args[0].([]value)
	sort.Slice(x, func(i, j int) bool {
		return x[i].(int) < x[j].(int)
	})
	return nil
}
func ext۰sort۰Strings(fr *frame, args []value) value {
	x := args[0].([]value)
	sort.Slice(x, func(i, j int) bool {
		return x[i].(string) < x[j].(string)
	})
	return nil
}
func ext۰sort۰Float64s(fr *frame, args []value) value {
	x := args[0].([]value)
	sort.Slice(x, func(i, j int) bool {
		return x[i].(float64) < x[j].(float64)
	})
	return nil
}

func ext۰strconv۰Atoi(fr *frame, args []value) value {
	i, e := strconv.Atoi(args[0].(string))
	if e != nil {
		return tuple{i, iface{fr.i.runtimeErrorString, e.Error()}}
	}
	return tuple{i, iface{}}
}
func ext۰strconv۰Itoa(fr *frame, args []value) value {
	return strconv.Itoa(args[0].(int))
}
func ext۰strconv۰FormatFloat(fr *frame, args []value) value {
	return strconv.FormatFloat(args[0].(float64), args[1].(byte), args[2].(int), args[3].(int))
}

func ext۰strings۰Count(fr *frame, args []value) value {
	return strings.Count(args[0].(string), args[1].(string))
}

func ext۰strings۰EqualFold(fr *frame, args []value) value {
	return strings.EqualFold(args[0].(string), args[1].(string))
}
func ext۰strings۰IndexByte(fr *frame, args []value) value {
	return strings.IndexByte(args[0].(string), args[1].(byte))
}

func ext۰strings۰Index(fr *frame, args []value) value {
	return strings.Index(args[0].(string), args[1].(string))
}

func ext۰strings۰Replace(fr *frame, args []value) value {
	// func Replace(s, old, new string, n int) string
	s := args[0].(string)
	new := args[1].(string)
	old := args[2].(string)
	n := args[3].(int)
	return strings.Replace(s, old, new, n)
}

func ext۰strings۰ToLower(fr *frame, args []value) value {
	return strings.ToLower(args[0].(string))
}

func ext۰runtime۰GOMAXPROCS(fr *frame, args []value) value {
	// Ignore args[0]; don't let the interpreted program
	// set the interpreter's GOMAXPROCS!
	return runtime.GOMAXPROCS(0)
}

func ext۰runtime۰Goexit(fr *frame, args []value) value {
	// TODO(adonovan): don't kill the interpreter's main goroutine.
	runtime.Goexit()
	return nil
}

func ext۰runtime۰GOROOT(fr *frame, args []value) value {
	return runtime.GOROOT()
}

func ext۰runtime۰GC(fr *frame, args []value) value {
	runtime.GC()
	return nil
}

func ext۰runtime۰Gosched(fr *frame, args []value) value {
	runtime.Gosched()
	return nil
}

func ext۰runtime۰NumCPU(fr *frame, args []value) value {
	return runtime.NumCPU()
}

func ext۰time۰Sleep(fr *frame, args []value) value {
	time.Sleep(time.Duration(args[0].(int64)))
	return nil
}

func ext۰os۰Getenv(fr *frame, args []value) value {
	name := args[0].(string)
	switch name {
	case "GOSSAINTERP":
		return "1"
	}
	return os.Getenv(name)
}

func ext۰os۰Exit(fr *frame, args []value) value {
	panic(exitPanic(args[0].(int)))
}

func ext۰unicode۰utf8۰DecodeRuneInString(fr *frame, args []value) value {
	r, n := utf8.DecodeRuneInString(args[0].(string))
	return tuple{r, n}
}

// A fake function for turning an arbitrary value into a string.
// Handles only the cases needed by the tests.
// Uses same logic as 'print' built-in.
func ext۰fmt۰Sprint(fr *frame, args []value) value {
	buf := new(bytes.Buffer)
	wasStr := false
	for i, arg := range args[0].([]value) {
		x := arg.(iface).v
		_, isStr := x.(string)
		if i > 0 && !wasStr && !isStr {
			buf.WriteByte(' ')
		}
		wasStr = isStr
		buf.WriteString(toString(x))
	}
	return buf.String()
}
