package symgo

// Stub table: everything below the cut line that the code under test calls.
// Each entry is part of the verification claim and is listed in evidence.

import (
	"encoding/json"
	"fmt"
	"go/token"
	"go/types"
	"os"
	"reflect"
	"regexp"
	"sort"
	"strconv"
	"strings"
	"unicode"

	"golang.org/x/tools/go/ssa"
)

// poison is the result of an unstubbed external call made during package
// initialisation; any use of it aborts the path (loudly).
type poison struct{ from string }

// nativeHandle wraps a host Go value (e.g. *regexp.Regexp).
type nativeHandle struct{ v any }

var errorMethodObj = types.Universe.Lookup("error").Type().Underlying().(*types.Interface).Method(0)

func (it *interpreter) runInit(p *ssa.Package) {
	init := p.Func("init")
	if init == nil {
		return
	}
	call(it, nil, token.NoPos, init, nil)
}

var usedStubs = map[string]bool{}


// syncMapState is the content of one sync.Map.
type syncMapState struct{ keys, vals []iface }

func (m *syncMapState) find(k iface) int {
	for i := range m.keys {
		switch r := m.keys[i].eq(nil, k).(type) {
		case bool:
			if r {
				return i
			}
		default:
			abortf("sync.Map with a symbolic key")
		}
	}
	return -1
}

func (m *syncMapState) put(k, v iface) {
	if i := m.find(k); i >= 0 {
		m.vals[i] = v
		return
	}
	m.keys, m.vals = append(m.keys, k), append(m.vals, v)
}

func (m *syncMapState) del(i int) {
	m.keys = append(m.keys[:i:i], m.keys[i+1:]...)
	m.vals = append(m.vals[:i:i], m.vals[i+1:]...)
}

func (it *interpreter) unstubbed(fr *frame, fn *ssa.Function, args []value) value {
	name := fn.String()
	if fn.Name() == "init" || strings.HasPrefix(fn.Name(), "init#") {
		return nil // initialiser of a package without bodies
	}
	// Tolerate unknown externals whose results are never used: return poison.
	res := fn.Signature.Results()
	mk := func(t types.Type) value {
		if it.res != nil {
			it.res.noteUnstubbed(name, fr.caller)
		}
		return poison{name}
	}
	switch res.Len() {
	case 0:
		// A call with no result cannot hand back poison: skipping it
		// silently would drop its side effects. Only calls known to have
		// none that the properties observe are skipped; anything else ends
		// the path as an engine error (inconclusive), never as a verdict.
		if f := os.Getenv("SYMGO_VOID_LOG"); f != "" {
			if fh, err := os.OpenFile(f, os.O_APPEND|os.O_CREATE|os.O_WRONLY, 0o644); err == nil {
				fmt.Fprintln(fh, name)
				fh.Close()
			}
			return nil
		}
		if !voidSkippable(name) {
			abortf("library call %s has no model and no result to poison", name)
		}
		return nil
	case 1:
		return mk(res.At(0).Type())
	}
	t := make(tuple, res.Len())
	for i := range t {
		t[i] = mk(res.At(i).Type())
	}
	return t
}

// voidSkippable lists result-less library calls whose effects no property
// observes (output and diagnostics).
func voidSkippable(name string) bool {
	for _, p := range voidSkipPrefixes {
		if strings.HasPrefix(name, p) {
			return true
		}
	}
	return false
}

var voidSkipPrefixes = []string{
	"log.", "(*log.Logger).", "runtime.GC", "runtime.Gosched", "runtime.KeepAlive", "runtime.SetFinalizer",
	"runtime/debug.", "(*testing.common).", "(*testing.T).", "(*os.File).Sync",
}

func (r *PathResult) noteUnstubbed(name string, caller *frame) {
	// recorded as a bound: it matters only if the poison is used, in which
	// case the path aborts with an engine error naming it.
	_ = caller
}

// errorString calls the Error method of an error value.
func (it *interpreter) errorString(e iface) string {
	if e.t == nil {
		return "<nil>"
	}
	if f := lookupMethod(it, e.t, errorMethodObj); f != nil {
		r := call(it, it.cur.top, token.NoPos, f, []value{e.v})
		if s, ok := r.(string); ok {
			return s
		}
		return toString(r)
	}
	return ""
}

func (it *interpreter) stringerString(e iface) (string, bool) {
	if e.t == nil {
		return "", false
	}
	ms := it.prog.MethodSets.MethodSet(e.t)
	for _, name := range []string{"Error", "String"} {
		sel := ms.Lookup(nil, name)
		if sel == nil {
			continue
		}
		sig, ok := sel.Type().(*types.Signature)
		if !ok || sig.Params().Len() != 0 || sig.Results().Len() != 1 {
			continue
		}
		f := it.prog.MethodValue(sel)
		if f == nil {
			continue
		}
		r := call(it, it.cur.top, token.NoPos, f, []value{e.v})
		if s, ok := r.(string); ok {
			return s, true
		}
	}
	return "", false
}

// mkError builds a *verifrt.Err value.
func (it *interpreter) mkError(msg string, wrapped value) value {
	t := it.ld.verifrt.Type("Err")
	if t == nil {
		abortf("verifrt.Err type missing")
	}
	w := iface{}
	if wi, ok := wrapped.(iface); ok {
		w = wi
	}
	var cell value = structure{msg, w}
	return iface{types.NewPointer(t.Type()), &cell}
}

func toNative(it *interpreter, v value) any {
	switch x := v.(type) {
	case iface:
		if x.t == nil {
			return nil
		}
		if s, ok := it.stringerString(x); ok {
			return stringerValue(s)
		}
		return toNative(it, x.v)
	case bool, int, int8, int16, int32, int64, uint, uint8, uint16, uint32, uint64, uintptr, float32, float64, string:
		return x
	case *Sym:
		return stringerValue("<sym>")
	case []value:
		var parts []string
		for _, e := range x {
			parts = append(parts, fmt.Sprint(toNative(it, e)))
		}
		return stringerValue("[" + strings.Join(parts, " ") + "]")
	case *omap:
		var parts []string
		for _, e := range x.live() {
			parts = append(parts, fmt.Sprint(toNative(it, e.key))+":"+fmt.Sprint(toNative(it, e.val)))
		}
		sort.Strings(parts)
		return stringerValue("map[" + strings.Join(parts, " ") + "]")
	}
	return stringerValue(toString(v))
}

type stringerValue string

func (s stringerValue) String() string { return string(s) }
func (s stringerValue) Format(f fmt.State, verb rune) {
	if verb == 'q' {
		fmt.Fprintf(f, "%q", string(s))
		return
	}
	f.Write([]byte(s))
}

// sprintf formats with Go's fmt using host values for scalars and the
// program's own Error/String methods for everything else.
func (it *interpreter) sprintf(format string, args []value) (string, value) {
	var b strings.Builder
	var wrapped value
	ai := 0
	for i := 0; i < len(format); i++ {
		c := format[i]
		if c != '%' {
			b.WriteByte(c)
			continue
		}
		j := i + 1
		for j < len(format) && strings.IndexByte("+-# 0123456789.*", format[j]) >= 0 {
			j++
		}
		if j >= len(format) {
			b.WriteString(format[i:])
			break
		}
		verb := format[j]
		spec := format[i : j+1]
		i = j
		if verb == '%' {
			b.WriteByte('%')
			continue
		}
		if ai >= len(args) {
			b.WriteString("%!" + string(verb) + "(MISSING)")
			continue
		}
		a := args[ai]
		ai++
		switch verb {
		case 'T':
			if ia, ok := a.(iface); ok && ia.t != nil {
				b.WriteString(ia.t.String())
			} else {
				b.WriteString("<nil>")
			}
		case 'w':
			wrapped = a
			b.WriteString(fmt.Sprintf("%v", toNative(it, a)))
		default:
			b.WriteString(fmt.Sprintf(spec, toNative(it, a)))
		}
	}
	return b.String(), wrapped
}

func variadic(args []value, i int) []value {
	if i >= len(args) {
		return nil
	}
	v, _ := args[i].([]value)
	return v
}

// native wraps a host function over simple types.
func native(fn any) externalFn {
	fv := reflect.ValueOf(fn)
	ft := fv.Type()
	return func(fr *frame, args []value) value {
		in := make([]reflect.Value, len(args))
		for i, a := range args {
			if isSym(a) {
				abortf("symbolic argument to native function %s at %s", ft.String(), fr.caller.pos())
			}
			var pt reflect.Type
			if ft.IsVariadic() && i >= ft.NumIn()-1 {
				pt = ft.In(ft.NumIn() - 1)
			} else {
				pt = ft.In(i)
			}
			in[i] = toHost(fr, a, pt)
		}
		var out []reflect.Value
		if ft.IsVariadic() {
			out = fv.CallSlice(in)
		} else {
			out = fv.Call(in)
		}
		switch len(out) {
		case 0:
			return nil
		case 1:
			return fromHost(fr, out[0])
		}
		t := make(tuple, len(out))
		for i := range out {
			t[i] = fromHost(fr, out[i])
		}
		return t
	}
}

func toHost(fr *frame, a value, pt reflect.Type) reflect.Value {
	switch pt.Kind() {
	case reflect.Slice:
		s, _ := a.([]value)
		r := reflect.MakeSlice(pt, len(s), len(s))
		for i, e := range s {
			r.Index(i).Set(toHost(fr, e, pt.Elem()))
		}
		return r
	case reflect.Interface:
		if ia, ok := a.(iface); ok {
			if ia.t == nil {
				return reflect.Zero(pt)
			}
			return reflect.ValueOf(toNative(fr.i, ia)).Convert(pt)
		}
	case reflect.Ptr:
		if p, ok := a.(*value); ok && p != nil {
			if h, ok := (*p).(nativeHandle); ok {
				return reflect.ValueOf(h.v)
			}
		}
	}
	if isSym(a) {
		abortf("symbolic argument to native function")
	}
	rv := reflect.ValueOf(a)
	if !rv.IsValid() {
		return reflect.Zero(pt)
	}
	if rv.Type().ConvertibleTo(pt) {
		return rv.Convert(pt)
	}
	abortf("toHost: cannot convert %T to %s", a, pt)
	return reflect.Value{}
}

var errType = reflect.TypeOf((*error)(nil)).Elem()

func fromHost(fr *frame, v reflect.Value) value {
	if v.Type() == errType || v.Type().Implements(errType) && v.Kind() == reflect.Interface {
		if v.IsNil() {
			return iface{}
		}
		return fr.i.mkError(v.Interface().(error).Error(), nil)
	}
	switch v.Kind() {
	case reflect.Bool:
		return v.Bool()
	case reflect.Int:
		return int(v.Int())
	case reflect.Int8:
		return int8(v.Int())
	case reflect.Int16:
		return int16(v.Int())
	case reflect.Int32:
		return int32(v.Int())
	case reflect.Int64:
		return v.Int()
	case reflect.Uint:
		return uint(v.Uint())
	case reflect.Uint8:
		return uint8(v.Uint())
	case reflect.Uint16:
		return uint16(v.Uint())
	case reflect.Uint32:
		return uint32(v.Uint())
	case reflect.Uint64:
		return v.Uint()
	case reflect.Float64:
		return v.Float()
	case reflect.Float32:
		return float32(v.Float())
	case reflect.String:
		return v.String()
	case reflect.Slice:
		if v.IsNil() {
			return []value(nil)
		}
		r := make([]value, v.Len())
		for i := range r {
			r[i] = fromHost(fr, v.Index(i))
		}
		return r
	case reflect.Ptr:
		p := new(value)
		*p = nativeHandle{v.Interface()}
		return p
	}
	abortf("fromHost: unsupported %s", v.Type())
	return nil
}

func ptrArg(fr *frame, a value, what string) *value {
	p, ok := a.(*value)
	if !ok || p == nil {
		panic(targetFault("runtime error: invalid memory address or nil pointer dereference (" + what + ")"))
	}
	return p
}

func (it *interpreter) redirect(fr *frame, name string, args []value) value {
	fn := it.ld.verifrt.Func(name)
	if fn == nil {
		abortf("verifrt.%s missing (needed as redirect target)", name)
	}
	return call(it, fr.caller, token.NoPos, fn, args)
}

// symStrconv: SMT definitions of integer<->string conversions.
func symFormatInt(x *Sym, signed bool) *Sym {
	// value as Int
	var asInt string
	if signed {
		// two's complement to Int
		asInt = app("ite", app("bvslt", x.e, bvLit(64, 0)),
			app("-", app("bv2nat", x.e), "18446744073709551616"), app("bv2nat", x.e))
		neg := app("<", asInt, "0")
		return &Sym{SStr, app("ite", neg, app("str.++", strLit("-"), app("str.from_int", app("-", asInt))), app("str.from_int", asInt))}
	}
	asInt = app("bv2nat", x.e)
	return &Sym{SStr, app("str.from_int", asInt)}
}

func init() {
	vr := VerifrtPath + "."
	reg := func(m map[string]externalFn) {
		for k, v := range m {
			externals[k] = v
		}
	}
	nondet := func(sort Sort, goT string) externalFn {
		return func(fr *frame, args []value) value {
			return fr.i.newNondet(args[0].(string), sort, goT)
		}
	}
	reg(map[string]externalFn{
		vr + "NondetBool":    nondet(SBool, "bool"),
		vr + "NondetInt64":   nondet(SBV64, "int64"),
		vr + "NondetInt":     nondet(SBV64, "int"),
		vr + "NondetUint64":  nondet(SBV64, "uint64"),
		vr + "NondetInt32":   nondet(SBV32, "int32"),
		vr + "NondetUint8":   nondet(SBV8, "uint8"),
		vr + "NondetFloat64": nondet(SFP64, "float64"),
		vr + "NondetString":  nondet(SStr, "string"),
		vr + "NondetVal":     nondet(SBV64, "int64"),
		vr + "Choice": func(fr *frame, args []value) value {
			n := int(asInt64(args[1]))
			if n <= 0 {
				abortf("verifrt.Choice(%v, %d)", args[0], n)
			}
			return fr.i.pc.choose(fr.i, "choice:"+args[0].(string), n, nil)
		},
		vr + "Param": func(fr *frame, args []value) value {
			if v, ok := fr.i.cfg.Params[args[0].(string)]; ok {
				return v
			}
			return int(asInt64(args[1]))
		},
		vr + "Yield": func(fr *frame, args []value) value { fr.i.schedPoint(fr.caller, args[0].(string)); return nil },
		vr + "Assume": func(fr *frame, args []value) value { fr.i.assume(fr.caller, args[0]); return nil },
		vr + "Assert": func(fr *frame, args []value) value {
			fr.i.assertProp(fr.caller, args[0], args[1].(string))
			return nil
		},
		vr + "Reach": func(fr *frame, args []value) value { fr.i.covered[args[0].(string)] = true; return nil },
		vr + "Event": func(fr *frame, args []value) value { fr.i.event("%s", args[0].(string)); return nil },
		vr + "Now":   func(fr *frame, args []value) value { return fr.i.now },
		vr + "Symbolic": func(fr *frame, args []value) value { return true },
		vr + "IsSym": func(fr *frame, args []value) value {
			if ia, ok := args[0].(iface); ok {
				return containsSym(ia.v)
			}
			return containsSym(args[0])
		},
		vr + "LiveGoroutines": func(fr *frame, args []value) value {
			n := 0
			for _, g := range fr.i.gs {
				if g.id != 0 && !g.done && !g.system && g != fr.g {
					n++
				}
			}
			return n
		},
		vr + "LiveGoroutineInfo": func(fr *frame, args []value) value {
			var s []string
			for _, g := range fr.i.gs {
				if g.id != 0 && !g.done && !g.system && g != fr.g {
					s = append(s, fmt.Sprintf("g%d[%s]:%s", g.id, g.spawnPos, g.what))
				}
			}
			return strings.Join(s, "; ")
		},
		// Settle lets every other goroutine run until none is enabled (timers do not fire).
		vr + "Settle": func(fr *frame, args []value) value {
			it := fr.i
			self := fr.g
			if !it.quiescent(self, false) {
				self.quiet = true
				it.block(fr.caller, "Settle", func() bool { return it.quiescent(self, false) })
				self.quiet = false
			}
			return nil
		},
		vr + "AwaitQuiescence": func(fr *frame, args []value) value {
			it := fr.i
			self := fr.g
			if !it.quiescent(self, true) {
				self.quiet = true
				it.block(fr.caller, "AwaitQuiescence", func() bool { return it.quiescent(self, true) })
				self.quiet = false
			}
			return nil
		},
		// TimerChan(d) is time.After without the time.Time payload.
		vr + "TimerChan": func(fr *frame, args []value) value { return fr.i.newTimer(fr.caller, asInt64(args[0])) },
		vr + "UF": func(fr *frame, args []value) value {
			name := "uf_" + args[0].(string)
			vs := variadic(args, 1)
			sorts := make([]Sort, len(vs))
			terms := make([]string, len(vs))
			for i, v := range vs {
				s := lift(v)
				sorts[i] = s.s
				terms[i] = s.e
			}
			fr.i.solver.DeclareFun(name, sorts, SBV64)
			if len(terms) == 0 {
				return &Sym{SBV64, name}
			}
			return &Sym{SBV64, app(name, terms...)}
		},
		vr + "UFBool": func(fr *frame, args []value) value {
			name := "ufb_" + args[0].(string)
			vs := variadic(args, 1)
			sorts := make([]Sort, len(vs))
			terms := make([]string, len(vs))
			for i, v := range vs {
				s := lift(v)
				sorts[i] = s.s
				terms[i] = s.e
			}
			fr.i.solver.DeclareFun(name, sorts, SBool)
			if len(terms) == 0 {
				return &Sym{SBool, name}
			}
			return &Sym{SBool, app(name, terms...)}
		},
		// StrInRe(s, smtRegLan) - membership of a (symbolic) string in a RegLan given as SMT-LIB text.
		vr + "StrInRe": func(fr *frame, args []value) value {
			return &Sym{SBool, app("str.in_re", lift(args[0]).e, args[1].(string))}
		},
		// PermuteOnly(k): from now on, permute the iteration order of the k-th range over a map
		// executed in repository code (all orders for <= 4 entries, rotations + reverse otherwise).
		vr + "PermuteOnly": func(fr *frame, args []value) value {
			fr.i.permuteActive = true
			fr.i.permuteAt = int(asInt64(args[0]))
			fr.i.permuteCount = 0
			return nil
		},
		vr + "PermuteOff": func(fr *frame, args []value) value {
			n := fr.i.permuteCount
			fr.i.permuteActive = false
			return n
		},
		vr + "Gid": func(fr *frame, args []value) value { return fr.g.id },
		vr + "Same": func(fr *frame, args []value) value {
			a, b := args[0].(iface), args[1].(iface)
			if !sameType(a.t, b.t) {
				return false
			}
			sa, oka := a.v.(*Sym)
			sb, okb := b.v.(*Sym)
			if oka || okb {
				return oka && okb && sa.e == sb.e
			}
			if a.t == nil {
				return true
			}
			return equalsConcrete(a.t, a.v, b.v)
		},
		vr + "Ite": func(fr *frame, args []value) value {
			c := lift(args[0])
			a, b := lift(args[1]), lift(args[2])
			return &Sym{a.s, app("ite", c.e, a.e, b.e)}
		},
	})

	// ---- generic std helpers (matched by the origin of the instantiation)
	reg(map[string]externalFn{
		"maps.Clone": func(fr *frame, args []value) value {
			m, _ := args[0].(*omap)
			if m == nil {
				return (*omap)(nil)
			}
			c := makeMap(m.kt, 0).(*omap)
			fr.i.nextObj++
			c.id = fr.i.nextObj
			for _, e := range m.live() {
				c.insert(e.key, e.val)
			}
			return c
		},
		"slices.Sort": func(fr *frame, args []value) value {
			x, _ := args[0].([]value)
			sort.SliceStable(x, func(i, j int) bool {
				switch a := x[i].(type) {
				case string:
					return a < x[j].(string)
				case *Sym:
					abortf("slices.Sort on symbolic values")
				}
				return asInt64(x[i]) < asInt64(x[j])
			})
			return nil
		},
		"slices.SortFunc":       sortByCmp,
		"slices.SortStableFunc": sortByCmp,
		"slices.Reverse": func(fr *frame, args []value) value {
			x, _ := args[0].([]value)
			for i, j := 0, len(x)-1; i < j; i, j = i+1, j-1 {
				x[i], x[j] = x[j], x[i]
			}
			return nil
		},
		"sort.Slice":       sortByLess,
		"sort.SliceStable": sortByLess,
		"slices.Contains": func(fr *frame, args []value) value {
			x, _ := args[0].([]value)
			for _, e := range x {
				if e == args[1] {
					return true
				}
			}
			return false
		},
	})

	// ---- sync
	reg(map[string]externalFn{
		"(*sync.Mutex).Lock": func(fr *frame, args []value) value {
			fr.i.mutexLock(fr, ptrArg(fr, args[0], "Mutex.Lock"))
			return nil
		},
		"(*sync.Mutex).Unlock": func(fr *frame, args []value) value {
			fr.i.mutexUnlock(fr, ptrArg(fr, args[0], "Mutex.Unlock"))
			return nil
		},
		"(*sync.Mutex).TryLock": func(fr *frame, args []value) value {
			it := fr.i
			p := ptrArg(fr, args[0], "Mutex.TryLock")
			m := it.mutexOf(fr, p)
			it.classifyMutex(fr, m)
			it.schedPoint(fr, "TryLock")
			if m.locked {
				return false
			}
			it.mutexLock(fr, p)
			return true
		},
		"(*sync.RWMutex).Lock": func(fr *frame, args []value) value {
			fr.i.mutexLock(fr, ptrArg(fr, args[0], "RWMutex.Lock"))
			return nil
		},
		"(*sync.RWMutex).Unlock": func(fr *frame, args []value) value {
			fr.i.mutexUnlock(fr, ptrArg(fr, args[0], "RWMutex.Unlock"))
			return nil
		},
		"(*sync.RWMutex).RLock": func(fr *frame, args []value) value {
			fr.i.rLock(fr, ptrArg(fr, args[0], "RWMutex.RLock"))
			return nil
		},
		"(*sync.RWMutex).RUnlock": func(fr *frame, args []value) value {
			fr.i.rUnlock(fr, ptrArg(fr, args[0], "RWMutex.RUnlock"))
			return nil
		},
		"(*sync.Once).Do": func(fr *frame, args []value) value {
			// The Once value's address serves as its lock; the done flag
			// lives beside the atomics. Concurrent callers block until the
			// first call's function has returned, as the real one does.
			it := fr.i
			p := ptrArg(fr, args[0], "Once.Do")
			it.mutexLock(fr, p)
			done := false
			if c := it.atomics[p]; c != nil {
				done, _ = (*c).(bool)
			}
			if !done {
				// set on return or panic of f, like the deferred store in the real Do
				func() {
					defer func() {
						var v value = true
						it.atomics[p] = &v
					}()
					call(it, fr, token.NoPos, args[1], nil)
				}()
			}
			it.mutexUnlock(fr, p)
			return nil
		},
		"(*sync.WaitGroup).Add": func(fr *frame, args []value) value {
			fr.i.wgAdd(fr, ptrArg(fr, args[0], "WaitGroup.Add"), int(asInt64(args[1])))
			return nil
		},
		"(*sync.WaitGroup).Done": func(fr *frame, args []value) value {
			fr.i.wgAdd(fr, ptrArg(fr, args[0], "WaitGroup.Done"), -1)
			return nil
		},
		"(*sync.WaitGroup).Wait": func(fr *frame, args []value) value {
			fr.i.wgWait(fr, ptrArg(fr, args[0], "WaitGroup.Wait"))
			return nil
		},
		"(*sync/atomic.Bool).Load": func(fr *frame, args []value) value {
			it := fr.i
			p := ptrArg(fr, args[0], "atomic.Bool.Load")
			it.schedPoint(fr, "atomic.Load")
			if it.hb != nil {
				it.hb.atomicOp(fr.g, p)
			}
			if c := it.atomics[p]; c != nil {
				return *c
			}
			return false
		},
		"(*sync/atomic.Bool).Store": func(fr *frame, args []value) value {
			it := fr.i
			p := ptrArg(fr, args[0], "atomic.Bool.Store")
			it.schedPoint(fr, "atomic.Store")
			if it.hb != nil {
				it.hb.atomicOp(fr.g, p)
			}
			v := args[1]
			it.atomics[p] = &v
			return nil
		},
		"(*sync/atomic.Bool).Swap": func(fr *frame, args []value) value {
			it := fr.i
			p := ptrArg(fr, args[0], "atomic.Bool.Swap")
			it.schedPoint(fr, "atomic.Swap")
			if it.hb != nil {
				it.hb.atomicOp(fr.g, p)
			}
			var old value = false
			if c := it.atomics[p]; c != nil {
				old = *c
			}
			v := args[1]
			it.atomics[p] = &v
			return old
		},
		"(*sync/atomic.Bool).CompareAndSwap": func(fr *frame, args []value) value {
			it := fr.i
			p := ptrArg(fr, args[0], "atomic.Bool.CompareAndSwap")
			it.schedPoint(fr, "atomic.CAS")
			if it.hb != nil {
				it.hb.atomicOp(fr.g, p)
			}
			var old value = false
			if c := it.atomics[p]; c != nil {
				old = *c
			}
			if old == args[1] {
				v := args[2]
				it.atomics[p] = &v
				return true
			}
			return false
		},
	})

	// ---- sync/atomic integer types (concrete values; every operation is a scheduling point)
	for _, ty := range []struct {
		name string
		zero value
		wrap func(int64) value
	}{
		{"Int64", int64(0), func(x int64) value { return x }},
		{"Int32", int32(0), func(x int64) value { return int32(x) }},
		{"Uint64", uint64(0), func(x int64) value { return uint64(x) }},
		{"Uint32", uint32(0), func(x int64) value { return uint32(x) }},
	} {
		ty := ty
		cur := func(fr *frame, args []value, op string) (*interpreter, *value, value) {
			it := fr.i
			p := ptrArg(fr, args[0], "atomic."+ty.name+"."+op)
			it.schedPoint(fr, "atomic."+op)
			if it.hb != nil {
				it.hb.atomicOp(fr.g, p)
			}
			if c := it.atomics[p]; c != nil {
				return it, p, *c
			}
			return it, p, ty.zero
		}
		num := func(v value) int64 {
			if _, sym := v.(*Sym); sym {
				abortf("atomic.%s with a symbolic value", ty.name)
			}
			if u, ok := v.(uint64); ok {
				return int64(u)
			}
			if u, ok := v.(uint32); ok {
				return int64(u)
			}
			return asInt64(v)
		}
		pre := "(*sync/atomic." + ty.name + ")."
		reg(map[string]externalFn{
			pre + "Load": func(fr *frame, args []value) value {
				_, _, v := cur(fr, args, "Load")
				return v
			},
			pre + "Store": func(fr *frame, args []value) value {
				it, p, _ := cur(fr, args, "Store")
				v := args[1]
				it.atomics[p] = &v
				return nil
			},
			pre + "Swap": func(fr *frame, args []value) value {
				it, p, old := cur(fr, args, "Swap")
				v := args[1]
				it.atomics[p] = &v
				return old
			},
			pre + "Add": func(fr *frame, args []value) value {
				it, p, old := cur(fr, args, "Add")
				v := ty.wrap(num(old) + num(args[1]))
				it.atomics[p] = &v
				return v
			},
			pre + "CompareAndSwap": func(fr *frame, args []value) value {
				it, p, old := cur(fr, args, "CAS")
				if num(old) == num(args[1]) {
					v := args[2]
					it.atomics[p] = &v
					return true
				}
				return false
			},
		})
	}

	// ---- sync/atomic function forms on plain integer variables (the cell itself holds the value)
	for _, ty := range []struct {
		name string
		wrap func(int64) value
	}{
		{"Int64", func(x int64) value { return x }},
		{"Int32", func(x int64) value { return int32(x) }},
		{"Uint64", func(x int64) value { return uint64(x) }},
		{"Uint32", func(x int64) value { return uint32(x) }},
	} {
		ty := ty
		cell := func(fr *frame, args []value, op string) *value {
			it := fr.i
			p := ptrArg(fr, args[0], "atomic."+op+ty.name)
			it.schedPoint(fr, "atomic."+op)
			if it.hb != nil {
				it.hb.atomicOp(fr.g, p)
			}
			return p
		}
		num := func(v value) int64 {
			switch u := v.(type) {
			case *Sym:
				abortf("atomic.%s on a symbolic value", ty.name)
			case uint64:
				return int64(u)
			case uint32:
				return int64(u)
			}
			return asInt64(v)
		}
		reg(map[string]externalFn{
			"sync/atomic.Load" + ty.name: func(fr *frame, args []value) value { return *cell(fr, args, "Load") },
			"sync/atomic.Store" + ty.name: func(fr *frame, args []value) value {
				*cell(fr, args, "Store") = args[1]
				return nil
			},
			"sync/atomic.Swap" + ty.name: func(fr *frame, args []value) value {
				p := cell(fr, args, "Swap")
				old := *p
				*p = args[1]
				return old
			},
			"sync/atomic.Add" + ty.name: func(fr *frame, args []value) value {
				p := cell(fr, args, "Add")
				*p = ty.wrap(num(*p) + num(args[1]))
				return *p
			},
			"sync/atomic.CompareAndSwap" + ty.name: func(fr *frame, args []value) value {
				p := cell(fr, args, "CompareAndSwap")
				if num(*p) == num(args[1]) {
					*p = args[2]
					return true
				}
				return false
			},
		})
	}

	// ---- sync.Map (Load / Store / LoadOrStore / LoadAndDelete / Delete; keys must be concrete)
	smOp := func(fr *frame, args []value, what string) (*interpreter, *syncMapState) {
		it := fr.i
		p := ptrArg(fr, args[0], "sync.Map."+what)
		it.schedPoint(fr, "sync.Map."+what)
		if it.hb != nil {
			it.hb.atomicOp(fr.g, p)
		}
		if it.syncMaps == nil {
			it.syncMaps = map[*value]*syncMapState{}
		}
		m := it.syncMaps[p]
		if m == nil {
			m = &syncMapState{}
			it.syncMaps[p] = m
		}
		return it, m
	}
	reg(map[string]externalFn{
		"(*sync.Map).Range": func(fr *frame, args []value) value {
			it, m := smOp(fr, args, "Range")
			keys := make([]value, len(m.keys))
			vals := make([]value, len(m.vals))
			for i := range m.keys {
				keys[i], vals[i] = m.keys[i], m.vals[i]
			}
			for i := range keys {
				if r, _ := call(it, fr, token.NoPos, args[1], []value{keys[i], vals[i]}).(bool); !r {
					break
				}
			}
			return nil
		},
		"(*sync.Map).Load": func(fr *frame, args []value) value {
			_, m := smOp(fr, args, "Load")
			if i := m.find(args[1].(iface)); i >= 0 {
				return tuple{m.vals[i], true}
			}
			return tuple{iface{}, false}
		},
		"(*sync.Map).Store": func(fr *frame, args []value) value {
			_, m := smOp(fr, args, "Store")
			m.put(args[1].(iface), args[2].(iface))
			return nil
		},
		"(*sync.Map).LoadOrStore": func(fr *frame, args []value) value {
			_, m := smOp(fr, args, "LoadOrStore")
			if i := m.find(args[1].(iface)); i >= 0 {
				return tuple{m.vals[i], true}
			}
			m.put(args[1].(iface), args[2].(iface))
			return tuple{args[2], false}
		},
		"(*sync.Map).LoadAndDelete": func(fr *frame, args []value) value {
			_, m := smOp(fr, args, "LoadAndDelete")
			if i := m.find(args[1].(iface)); i >= 0 {
				v := m.vals[i]
				m.del(i)
				return tuple{v, true}
			}
			return tuple{iface{}, false}
		},
		"(*sync.Map).Delete": func(fr *frame, args []value) value {
			_, m := smOp(fr, args, "Delete")
			if i := m.find(args[1].(iface)); i >= 0 {
				m.del(i)
			}
			return nil
		},
	})

	// ---- math/rand: a *rand.Rand is one memory cell as far as the happens-before monitor is concerned
	// (rand.Rand is documented as not safe for concurrent use: every method call is a write to its state);
	// the numbers themselves come from a per-path counter (generated identifiers are opaque to every oracle)
	reg(map[string]externalFn{
		"math/rand.NewSource": func(fr *frame, args []value) value { return nativeHandle{"rand.Source"} },
		"math/rand.New": func(fr *frame, args []value) value {
			cell := new(value)
			*cell = nativeHandle{"rand.Rand"}
			return cell
		},
		"(*math/rand.Rand).Intn": func(fr *frame, args []value) value {
			it := fr.i
			if cell, ok := args[0].(*value); ok && it.hb != nil && fr.caller != nil {
				it.hb.accessNative(fr.caller, cell, true, "state of a math/rand.Rand")
			}
			it.randCounter++
			n := int(asInt64(args[1]))
			if n <= 0 {
				panic(targetPanic{iface{types.Typ[types.String], "invalid argument to Intn"}})
			}
			return int(it.randCounter*7+3) % n
		},
	})

	// ---- time / context (context is implemented in Go inside verifrt)
	reg(map[string]externalFn{
		"time.After": func(fr *frame, args []value) value { return fr.i.newTimer(fr.caller, asInt64(args[0])) },
		"time.Sleep": func(fr *frame, args []value) value { fr.i.sleep(fr.caller, asInt64(args[0])); return nil },
		"context.Background": func(fr *frame, args []value) value { return fr.i.redirect(fr, "CtxBackground", args) },
		"context.TODO":       func(fr *frame, args []value) value { return fr.i.redirect(fr, "CtxBackground", args) },
		"context.WithCancel": func(fr *frame, args []value) value { return fr.i.redirect(fr, "CtxWithCancel", args) },
		"context.WithTimeout": func(fr *frame, args []value) value {
			return fr.i.redirect(fr, "CtxWithTimeout", args)
		},
		"(time.Duration).String":       func(fr *frame, args []value) value { return fmt.Sprint(asInt64(args[0])) + "ns" },
		"(time.Duration).Milliseconds": func(fr *frame, args []value) value { return asInt64(args[0]) / 1e6 },
	})

	// ---- fmt / errors
	reg(map[string]externalFn{
		"fmt.Sprintf": func(fr *frame, args []value) value {
			s, _ := fr.i.sprintf(args[0].(string), variadic(args, 1))
			return s
		},
		"fmt.Errorf": func(fr *frame, args []value) value {
			s, w := fr.i.sprintf(args[0].(string), variadic(args, 1))
			return fr.i.mkError(s, w)
		},
		"fmt.Sprint": func(fr *frame, args []value) value {
			var parts []any
			for _, a := range variadic(args, 0) {
				parts = append(parts, toNative(fr.i, a))
			}
			return fmt.Sprint(parts...)
		},
		"fmt.Sprintln": func(fr *frame, args []value) value {
			var parts []any
			for _, a := range variadic(args, 0) {
				parts = append(parts, toNative(fr.i, a))
			}
			return fmt.Sprintln(parts...)
		},
		"fmt.Printf":   func(fr *frame, args []value) value { return tuple{0, iface{}} },
		"fmt.Println":  func(fr *frame, args []value) value { return tuple{0, iface{}} },
		"fmt.Print":    func(fr *frame, args []value) value { return tuple{0, iface{}} },
		"fmt.Fprintf":  func(fr *frame, args []value) value { return tuple{0, iface{}} },
		"fmt.Fprintln": func(fr *frame, args []value) value { return tuple{0, iface{}} },
		"fmt.Fprint":   func(fr *frame, args []value) value { return tuple{0, iface{}} },
		"errors.New": func(fr *frame, args []value) value {
			return fr.i.mkError(args[0].(string), nil)
		},
		"errors.Unwrap": func(fr *frame, args []value) value { return fr.i.errUnwrap(args[0].(iface)) },
		"errors.Is": func(fr *frame, args []value) value {
			e, target := args[0].(iface), args[1].(iface)
			for n := 0; e.t != nil && n < 50; n++ {
				if sameType(e.t, target.t) && types.Comparable(e.t) && equalsConcrete(e.t, e.v, target.v) {
					return true
				}
				e = fr.i.errUnwrap(e)
			}
			return false
		},
		"errors.As": func(fr *frame, args []value) value {
			e, target := args[0].(iface), args[1].(iface)
			if target.t == nil {
				panic(targetPanic{iface{types.Typ[types.String], "errors: target cannot be nil"}})
			}
			pt, ok := target.t.Underlying().(*types.Pointer)
			if !ok {
				panic(targetPanic{iface{types.Typ[types.String], "errors: target must be a non-nil pointer"}})
			}
			want := pt.Elem()
			for n := 0; e.t != nil && n < 50; n++ {
				if wi, ok := want.Underlying().(*types.Interface); ok {
					if types.Implements(e.t, wi) {
						*(target.v.(*value)) = e
						return true
					}
				} else if types.Identical(e.t, want) {
					*(target.v.(*value)) = e.v
					return true
				}
				e = fr.i.errUnwrap(e)
			}
			return false
		},
	})

	// ---- encoding/json (scalars only: used for default values of schema properties)
	reg(map[string]externalFn{
		"encoding/json.Unmarshal": func(fr *frame, args []value) value {
			raw, _ := args[0].([]value)
			b := make([]byte, len(raw))
			for i, x := range raw {
				b[i] = x.(byte)
			}
			var host any
			if err := json.Unmarshal(b, &host); err != nil {
				return fr.i.mkError(err.Error(), nil)
			}
			target, ok := args[1].(iface)
			if !ok || target.t == nil {
				return fr.i.mkError("json: Unmarshal(nil)", nil)
			}
			p, ok := target.v.(*value)
			if !ok || p == nil {
				return fr.i.mkError("json: Unmarshal(non-pointer)", nil)
			}
			var v value
			switch h := host.(type) {
			case nil:
				v = iface{}
			case bool:
				v = iface{types.Typ[types.Bool], h}
			case float64:
				v = iface{types.Typ[types.Float64], h}
			case string:
				v = iface{types.Typ[types.String], h}
			default:
				abortf("encoding/json.Unmarshal of a non-scalar document is not modelled")
			}
			if _, isIface := mustDeref(target.t).Underlying().(*types.Interface); !isIface {
				abortf("encoding/json.Unmarshal into %s is not modelled", target.t)
			}
			*p = v
			return iface{}
		},
	})

	// ---- strings.Replacer (host object behind a pointer cell; concrete strings only)
	reg(map[string]externalFn{
		"strings.NewReplacer": func(fr *frame, args []value) value {
			var pairs []string
			if sl, ok := args[0].([]value); ok {
				for _, x := range sl {
					if isSym(x) {
						abortf("symbolic argument to strings.NewReplacer at %s", fr.caller.pos())
					}
					pairs = append(pairs, x.(string))
				}
			}
			cell := new(value)
			*cell = nativeHandle{strings.NewReplacer(pairs...)}
			return cell
		},
		"(*strings.Replacer).Replace": func(fr *frame, args []value) value {
			cell := ptrArg(fr, args[0], "Replacer.Replace")
			if isSym(args[1]) {
				abortf("symbolic argument to strings.Replacer.Replace at %s", fr.caller.pos())
			}
			return (*cell).(nativeHandle).v.(*strings.Replacer).Replace(args[1].(string))
		},
	})

	// ---- strings.Builder (content kept on the host, keyed by the builder's address; concrete strings only)
	sb := func(fr *frame, args []value, what string) *strings.Builder {
		it := fr.i
		p := ptrArg(fr, args[0], "strings.Builder."+what)
		if it.builders == nil {
			it.builders = map[*value]*strings.Builder{}
		}
		b := it.builders[p]
		if b == nil {
			b = &strings.Builder{}
			it.builders[p] = b
		}
		return b
	}
	reg(map[string]externalFn{
		"(*strings.Builder).WriteString": func(fr *frame, args []value) value {
			if isSym(args[1]) {
				abortf("symbolic argument to strings.Builder.WriteString at %s", fr.caller.pos())
			}
			n, _ := sb(fr, args, "WriteString").WriteString(args[1].(string))
			return tuple{n, iface{}}
		},
		"(*strings.Builder).WriteByte": func(fr *frame, args []value) value {
			sb(fr, args, "WriteByte").WriteByte(args[1].(byte))
			return iface{}
		},
		"(*strings.Builder).WriteRune": func(fr *frame, args []value) value {
			n, _ := sb(fr, args, "WriteRune").WriteRune(args[1].(rune))
			return tuple{n, iface{}}
		},
		"(*strings.Builder).String": func(fr *frame, args []value) value { return sb(fr, args, "String").String() },
		"(*strings.Builder).Len":    func(fr *frame, args []value) value { return sb(fr, args, "Len").Len() },
		"(*strings.Builder).Reset":  func(fr *frame, args []value) value { sb(fr, args, "Reset").Reset(); return nil },
		"(*strings.Builder).Grow":   func(fr *frame, args []value) value { return nil },
	})

	// ---- pure std functions executed on the host when arguments are concrete
	reg(map[string]externalFn{
		"strings.Join":       native(strings.Join),
		"strings.Split":      native(strings.Split),
		"strings.Replace":    native(strings.Replace),
		"strings.ReplaceAll": native(strings.ReplaceAll),
		"strings.HasPrefix":  native(strings.HasPrefix),
		"strings.HasSuffix":  native(strings.HasSuffix),
		"strings.Contains":   native(strings.Contains),
		"strings.TrimSpace":  native(strings.TrimSpace),
		"strings.TrimPrefix": native(strings.TrimPrefix),
		"strings.TrimSuffix": native(strings.TrimSuffix),
		"strings.Trim":       native(strings.Trim),
		"strings.Repeat":     native(strings.Repeat),
		"strings.Index":      native(strings.Index),
		"strings.LastIndex":  native(strings.LastIndex),
		"strings.Count":      native(strings.Count),
		"strings.EqualFold":  native(strings.EqualFold),
		"strings.Fields":     native(strings.Fields),
		"strings.CutPrefix":  native(strings.CutPrefix),
		"strings.CutSuffix":  native(strings.CutSuffix),
		"strings.Cut":        native(strings.Cut),
		"strings.SplitN":     native(strings.SplitN),
		"strings.TrimLeft":   native(strings.TrimLeft),
		"strings.TrimRight":  native(strings.TrimRight),
		"strings.IndexByte":  native(strings.IndexByte),
		"strings.IndexRune":  native(strings.IndexRune),
		"strings.ContainsRune": native(strings.ContainsRune),
		"strings.ContainsAny":  native(strings.ContainsAny),
		"strings.Compare":    native(strings.Compare),
		"strings.Title":      native(strings.Title), //nolint
		"strconv.FormatUint": native(strconv.FormatUint),
		"strconv.Unquote":    native(strconv.Unquote),
		"unicode.IsSpace":    native(unicode.IsSpace),
		"unicode.IsLower":    native(unicode.IsLower),
		"unicode.ToLower":    native(unicode.ToLower),
		"unicode.ToUpper":    native(unicode.ToUpper),
		"strconv.Itoa":       native(strconv.Itoa),
		"strconv.Atoi":       native(strconv.Atoi),
		"strconv.ParseFloat":  native(strconv.ParseFloat),
		"strconv.Quote":       native(strconv.Quote),
		"unicode.IsUpper":     native(unicode.IsUpper),
		"unicode.IsLetter":    native(unicode.IsLetter),
		"unicode.IsDigit":     native(unicode.IsDigit),
		"regexp.MustCompile":  native(regexp.MustCompile),
		"regexp.Compile":      native(regexp.Compile),
		"regexp.MatchString":  native(regexp.MatchString),
		"(*regexp.Regexp).MatchString":         native((*regexp.Regexp).MatchString),
		"(*regexp.Regexp).FindStringSubmatch":  native((*regexp.Regexp).FindStringSubmatch),
		"(*regexp.Regexp).FindString":          native((*regexp.Regexp).FindString),
		"(*regexp.Regexp).ReplaceAllString":    native((*regexp.Regexp).ReplaceAllString),
		"(*regexp.Regexp).String":              native((*regexp.Regexp).String),
		"path/filepath.Join":                   native(joinPath),
		"path/filepath.IsAbs":                  native(isAbsPath),
		"path/filepath.Clean":                  native(cleanPath),
		"path/filepath.Dir":                    native(dirPath),
		"path/filepath.Base":                   native(basePath),
		"os.Getenv":                            func(fr *frame, args []value) value { return "" },
	})
	_ = os.Getenv
}

func (it *interpreter) errUnwrap(e iface) iface {
	if e.t == nil {
		return iface{}
	}
	ms := it.prog.MethodSets.MethodSet(e.t)
	sel := ms.Lookup(nil, "Unwrap")
	if sel == nil {
		return iface{}
	}
	sig, ok := sel.Type().(*types.Signature)
	if !ok || sig.Params().Len() != 0 || sig.Results().Len() != 1 {
		return iface{}
	}
	f := it.prog.MethodValue(sel)
	if f == nil {
		return iface{}
	}
	r := call(it, it.cur.top, token.NoPos, f, []value{e.v})
	if ri, ok := r.(iface); ok {
		return ri
	}
	return iface{}
}


// sortByCmp: slices.SortFunc / SortStableFunc - a stable insertion sort calling the target's comparison
// (a comparison on symbolic data forks like any other branch of the target).
func sortByCmp(fr *frame, args []value) value {
	x, _ := args[0].([]value)
	for i := 1; i < len(x); i++ {
		for j := i; j > 0; j-- {
			r := call(fr.i, fr, token.NoPos, args[1], []value{x[j-1], x[j]})
			if asInt64(r) <= 0 {
				break
			}
			x[j-1], x[j] = x[j], x[j-1]
		}
	}
	return nil
}

// sortByLess: sort.Slice / SliceStable - the less function indexes the slice itself, so elements are
// swapped in place between calls (stable insertion sort).
func sortByLess(fr *frame, args []value) value {
	var x []value
	switch v := args[0].(type) {
	case iface:
		x, _ = v.v.([]value)
	case []value:
		x = v
	}
	for i := 1; i < len(x); i++ {
		for j := i; j > 0; j-- {
			r, _ := call(fr.i, fr, token.NoPos, args[1], []value{j, j - 1}).(bool)
			if !r {
				break
			}
			x[j-1], x[j] = x[j], x[j-1]
		}
	}
	return nil
}
