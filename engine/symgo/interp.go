// Copyright 2013 The Go Authors. All rights reserved.
// Use of this source code is governed by a BSD-style
// license that can be found in the LICENSE file.

// Package symgo is a symbolic executor for Go programs in SSA form.
//
// Its skeleton (frames, the instruction switch, the value representation of
// aggregates, the fake reflect package) is derived from
// golang.org/x/tools/go/ssa/interp (BSD licence).  What is new: scalar leaves
// may be SMT terms (*Sym); branches on terms fork, with an SMT solver deciding
// feasibility; goroutines, channels, select, mutexes, wait groups, atomics and
// timers are implemented by a controlled scheduler whose choices are decision
// variables; Go's unspecified choices (select among ready cases, map order)
// are decision variables too; runtime faults are explicit and checked by the
// solver when their condition is symbolic.
package symgo

import (
	"fmt"
	"go/token"
	"go/types"
	"os"
	"runtime"
	"slices"
	"strings"

	"golang.org/x/tools/go/ssa"
)

type continuation int

const (
	kNext continuation = iota
	kReturn
	kJump
)

type methodSet map[string]*ssa.Function

// targetFault is a Go runtime fault of the program under analysis (nil
// dereference, index out of range, send on closed channel, ...).
type targetFault string

func (f targetFault) Error() string { return string(f) }

// abortPath unwinds an interpreted goroutine when its path is over.
type abortPath struct{}

// Config are the per-harness knobs of one exploration.
type Config struct {
	Preemptions       int      // delay bound: number of deviations from the deterministic round-robin scheduler
	Unwind            int      // max visits of one block per frame
	MaxDepth          int      // max call depth
	MaxInstr          int64    // instruction budget per path
	AdversarialTime   bool     // timers may fire at any scheduling point
	Stalls            int      // number of "slow goroutine" decisions per path (see schedPoint)
	FPConvAMD64       bool     // float->int64 out of range gives 0x8000000000000000
	GuardedMutexPkgs  []string // mutexes allocated in these packages are assumed (and checked) to be guarded by another held lock
	MapOrders         string   // "first" | "rot" | "all"
	DeadlockIsFinding bool     // a state with no runnable goroutine while main is unfinished is a violation
	HB                bool     // happens-before race monitor
	Trace             bool
	RecursionIsFinding bool // exceeding MaxDepth is a violation (unbounded recursion) rather than an engine bound
	MainFirst         bool // base schedule prefers the harness goroutine (the caller of the API under test) whenever it is enabled
	Params            map[string]int // harness size parameters (verifrt.Param)
	Redirects         map[string]string // callee name -> "import/path.Func" executed instead ("" = return zero values)

	replayModel  map[string]string
	replayNative map[string][]any
}

// State shared between all interpreted goroutines of one path.
type interpreter struct {
	prog               *ssa.Program
	ld                 *Loaded
	globals            map[*ssa.Global]*value
	reflectPackage     *ssa.Package
	errorMethods       methodSet
	rtypeMethods       methodSet
	runtimeErrorString types.Type
	sizes              types.Sizes
	cfg                *Config

	builders    map[*value]*strings.Builder
	syncMaps    map[*value]*syncMapState
	randCounter int
	stalls      int
	strChars map[string][]string // symbolic strings decomposed into named code points (natives_str.go)

	// path control
	pc      *pathCtl
	solver  *Solver
	nondets []nondetVar
	counts  map[string]int
	res     *PathResult
	instrs  int64
	satKnown bool
	tainted bool // a solver "unknown" was taken as feasible on this path

	// scheduler
	gs          []*goroutine
	cur         *goroutine
	preemptions int
	lastRun     *goroutine
	inQuiet     int
	permuteActive bool
	permuteAt     int
	permuteCount  int
	aborting    bool
	timers      []*timer
	now         int64
	nextObj     int
	mutexes     map[*value]*mutexState
	wgs         map[*value]*wgState
	atomics     map[*value]*value
	events      []string
	hb          *hbState

	covered map[string]bool
}

type nondetVar struct {
	name string
	sort Sort
	goT  string
}

type deferred struct {
	fn    value
	args  []value
	instr *ssa.Defer
	tail  *deferred
}

type frame struct {
	i                *interpreter
	g                *goroutine
	caller           *frame
	fn               *ssa.Function
	block, prevBlock *ssa.BasicBlock
	env              map[ssa.Value]value // dynamic values of SSA variables
	locals           []value
	defers           *deferred
	result           value
	panicking        bool
	panic            interface{}
	phitemps         []value // temporaries for parallel phi assignment
	visits           map[*ssa.BasicBlock]int
	depth            int
	curInstr         ssa.Instruction
}

func (fr *frame) get(key ssa.Value) value {
	switch key := key.(type) {
	case nil:
		return nil
	case *ssa.Function, *ssa.Builtin:
		return key
	case *ssa.Const:
		return constValue(key)
	case *ssa.Global:
		if r, ok := fr.i.globals[key]; ok {
			return r
		}
		// lazily allocated global of a package whose init we do not run
		cell := zero(mustDeref(key.Type()))
		fr.i.globals[key] = &cell
		return &cell
	}
	if r, ok := fr.env[key]; ok {
		return r
	}
	panic(engineAbort{fmt.Sprintf("get: no value for %T: %v", key, key.Name())})
}

func mustDeref(t types.Type) types.Type {
	if p, ok := t.Underlying().(*types.Pointer); ok {
		return p.Elem()
	}
	panic(fmt.Sprintf("mustDeref: %s is not a pointer", t))
}

// pos returns a printable position of the instruction being executed.
func (fr *frame) pos() string {
	if fr == nil {
		return "?"
	}
	if fr.curInstr != nil && fr.curInstr.Pos() != token.NoPos {
		return shortPos(fr.i.prog.Fset.Position(fr.curInstr.Pos()))
	}
	// fall back to closest instruction with a position in the block
	if fr.block != nil {
		for _, in := range fr.block.Instrs {
			if in.Pos() != token.NoPos {
				return shortPos(fr.i.prog.Fset.Position(in.Pos())) + "~"
			}
		}
	}
	return fr.fn.String()
}

func shortPos(p token.Position) string {
	f := p.Filename
	if i := strings.Index(f, "/pkg/mod/"); i >= 0 {
		f = f[i+9:]
	}
	f = strings.TrimPrefix(f, "/repo/")
	return fmt.Sprintf("%s:%d", f, p.Line)
}

func (fr *frame) stack() []string {
	var s []string
	for f := fr; f != nil; f = f.caller {
		s = append(s, f.fn.String()+" @ "+f.pos())
	}
	return s
}

// runDefer runs a deferred call d.
// It always returns normally, but may set or clear fr.panic.
func (fr *frame) runDefer(d *deferred) {
	var ok bool
	defer func() {
		if !ok {
			r := recover()
			switch r.(type) {
			case abortPath, engineAbort:
				panic(r)
			}
			// Deferred call created a new state of panic.
			fr.panicking = true
			fr.panic = r
		}
	}()
	call(fr.i, fr, d.instr.Pos(), d.fn, d.args)
	ok = true
}

// runDefers executes fr's deferred function calls in LIFO order.
func (fr *frame) runDefers() {
	for d := fr.defers; d != nil; d = d.tail {
		fr.runDefer(d)
	}
	fr.defers = nil
	if fr.panicking {
		panic(fr.panic) // new panic, or still panicking
	}
}

// lookupMethod returns the method set for type typ, which may be one
// of the interpreter's fake types.
func lookupMethod(i *interpreter, typ types.Type, meth *types.Func) *ssa.Function {
	switch typ {
	case rtypeType:
		return i.rtypeMethods[meth.Id()]
	case errorType:
		return i.errorMethods[meth.Id()]
	}
	return i.prog.LookupMethod(typ, meth.Pkg(), meth.Name())
}

func (fr *frame) derefCheck(p value, what string) *value {
	pv, ok := p.(*value)
	if !ok {
		abortf("%s: pointer operand is %T at %s", what, p, fr.pos())
	}
	if pv == nil {
		panic(targetFault("runtime error: invalid memory address or nil pointer dereference"))
	}
	return pv
}

// concreteIndex turns an index value into an int, case-splitting a symbolic
// index over [0,n) and reporting out-of-range as a fault.
func (fr *frame) concreteIndex(idx value, n int, what string) int {
	if s, ok := idx.(*Sym); ok {
		it := fr.i
		w := s.s.width()
		oob := &Sym{SBool, app("bvuge", s.e, bvLit(w, uint64(n)))}
		it.faultIf(oob, "runtime error: index out of range ("+what+")")
		k := it.pc.choose(it, "symindex@"+fr.pos(), n, func(i int) bool {
			return it.solver.CheckWith(app("=", s.e, bvLit(w, uint64(i)))) != "unsat"
		})
		it.solver.Assert(app("=", s.e, bvLit(w, uint64(k))))
		return k
	}
	i := asInt64(idx)
	if i < 0 || i >= int64(n) {
		panic(targetFault(fmt.Sprintf("runtime error: index out of range [%d] with length %d", i, n)))
	}
	return int(i)
}

// visitInstr interprets a single ssa.Instruction within the activation
// record frame.  It returns a continuation value indicating where to
// read the next instruction from.
func visitInstr(fr *frame, instr ssa.Instruction) continuation {
	it := fr.i
	switch instr := instr.(type) {
	case *ssa.DebugRef:
		// no-op

	case *ssa.UnOp:
		fr.env[instr] = unop(fr, instr, fr.get(instr.X))

	case *ssa.BinOp:
		fr.env[instr] = binop(it, instr.Op, instr.X.Type(), fr.get(instr.X), fr.get(instr.Y))

	case *ssa.Call:
		fn, args := prepareCall(fr, &instr.Call)
		fr.env[instr] = call(fr.i, fr, instr.Pos(), fn, args)

	case *ssa.ChangeInterface:
		fr.env[instr] = fr.get(instr.X)

	case *ssa.ChangeType:
		fr.env[instr] = fr.get(instr.X) // (can't fail)

	case *ssa.Convert:
		fr.env[instr] = conv(it, instr.Type(), instr.X.Type(), fr.get(instr.X))

	case *ssa.SliceToArrayPointer:
		fr.env[instr] = sliceToArrayPointer(instr.Type(), instr.X.Type(), fr.get(instr.X))

	case *ssa.MakeInterface:
		fr.env[instr] = iface{t: instr.X.Type(), v: fr.get(instr.X)}

	case *ssa.Extract:
		fr.env[instr] = fr.get(instr.Tuple).(tuple)[instr.Index]

	case *ssa.Slice:
		fr.env[instr] = slice(fr.get(instr.X), fr.get(instr.Low), fr.get(instr.High), fr.get(instr.Max))

	case *ssa.Return:
		switch len(instr.Results) {
		case 0:
		case 1:
			fr.result = fr.get(instr.Results[0])
		default:
			var res []value
			for _, r := range instr.Results {
				res = append(res, fr.get(r))
			}
			fr.result = tuple(res)
		}
		fr.block = nil
		return kReturn

	case *ssa.RunDefers:
		fr.runDefers()

	case *ssa.Panic:
		panic(targetPanic{fr.get(instr.X)})

	case *ssa.Send:
		it.chanSend(fr, fr.get(instr.Chan), fr.get(instr.X))

	case *ssa.Store:
		addr := fr.derefCheck(fr.get(instr.Addr), "store")
		if it.hb != nil {
			it.hb.access(fr, addr, true)
		}
		store(mustDeref(instr.Addr.Type()), addr, fr.get(instr.Val))

	case *ssa.If:
		succ := 1
		var b bool
		switch c := fr.get(instr.Cond).(type) {
		case bool:
			b = c
		case *Sym:
			b = it.branch(fr, c)
		default:
			abortf("If on %T at %s", c, fr.pos())
		}
		if b {
			succ = 0
		}
		fr.prevBlock, fr.block = fr.block, fr.block.Succs[succ]
		return kJump

	case *ssa.Jump:
		fr.prevBlock, fr.block = fr.block, fr.block.Succs[0]
		return kJump

	case *ssa.Defer:
		fn, args := prepareCall(fr, &instr.Call)
		defers := &fr.defers
		if into := fr.get(instr.DeferStack); into != nil {
			defers = into.(**deferred)
		}
		*defers = &deferred{
			fn:    fn,
			args:  args,
			instr: instr,
			tail:  *defers,
		}

	case *ssa.Go:
		fn, args := prepareCall(fr, &instr.Call)
		it.spawn(fr, instr.Pos(), fn, args)

	case *ssa.MakeChan:
		fr.env[instr] = it.newChan(int(asInt64(fr.get(instr.Size))), instr.Type().Underlying().(*types.Chan).Elem(), fr.pos())

	case *ssa.Alloc:
		var addr *value
		if instr.Heap {
			// new
			addr = new(value)
			fr.env[instr] = addr
		} else {
			// local
			addr = fr.env[instr].(*value)
		}
		*addr = zero(mustDeref(instr.Type()))

	case *ssa.MakeSlice:
		n := asInt64(fr.get(instr.Cap))
		if n < 0 || n > 1<<20 {
			panic(targetFault("runtime error: makeslice: cap out of range"))
		}
		slice := make([]value, n)
		tElt := instr.Type().Underlying().(*types.Slice).Elem()
		for i := range slice {
			slice[i] = zero(tElt)
		}
		l := asInt64(fr.get(instr.Len))
		if l < 0 || l > n {
			panic(targetFault("runtime error: makeslice: len out of range"))
		}
		fr.env[instr] = slice[:l]

	case *ssa.MakeMap:
		m := makeMap(instr.Type().Underlying().(*types.Map).Key(), 0).(*omap)
		it.nextObj++
		m.id = it.nextObj
		fr.env[instr] = m

	case *ssa.Range:
		fr.env[instr] = it.rangeIter(fr, fr.get(instr.X), instr.X.Type())

	case *ssa.Next:
		fr.env[instr] = fr.get(instr.Iter).(iter).next()

	case *ssa.FieldAddr:
		p := fr.derefCheck(fr.get(instr.X), "fieldaddr")
		fr.env[instr] = &(*p).(structure)[instr.Field]

	case *ssa.Field:
		fr.env[instr] = fr.get(instr.X).(structure)[instr.Field]

	case *ssa.IndexAddr:
		x := fr.get(instr.X)
		idx := fr.get(instr.Index)
		switch x := x.(type) {
		case []value:
			fr.env[instr] = &x[fr.concreteIndex(idx, len(x), "slice")]
		case *value: // *array
			if x == nil {
				panic(targetFault("runtime error: invalid memory address or nil pointer dereference"))
			}
			a := (*x).(array)
			fr.env[instr] = &a[fr.concreteIndex(idx, len(a), "array")]
		default:
			abortf("unexpected x type in IndexAddr: %T", x)
		}

	case *ssa.Index:
		x := fr.get(instr.X)
		idx := fr.get(instr.Index)

		switch x := x.(type) {
		case array:
			fr.env[instr] = x[fr.concreteIndex(idx, len(x), "array")]
		case string:
			fr.env[instr] = x[fr.concreteIndex(idx, len(x), "string")]
		default:
			abortf("unexpected x type in Index: %T", x)
		}

	case *ssa.Lookup:
		fr.env[instr] = lookup(fr, instr, fr.get(instr.X), fr.get(instr.Index))

	case *ssa.MapUpdate:
		m := fr.get(instr.Map)
		key := fr.get(instr.Key)
		v := fr.get(instr.Value)
		switch m := m.(type) {
		case *omap:
			if it.hb != nil {
				it.hb.accessObj(fr, m, true)
			}
			m.insert(key, v)
		default:
			abortf("illegal map type: %T", m)
		}

	case *ssa.TypeAssert:
		fr.env[instr] = typeAssert(fr.i, instr, fr.get(instr.X).(iface))

	case *ssa.MakeClosure:
		var bindings []value
		for _, binding := range instr.Bindings {
			bindings = append(bindings, fr.get(binding))
		}
		fr.env[instr] = &closure{instr.Fn.(*ssa.Function), bindings}

	case *ssa.Phi:
		panic(engineAbort{"unreachable: phi"}) // phis are processed at block entry

	case *ssa.Select:
		fr.env[instr] = it.doSelect(fr, instr)

	default:
		abortf("unexpected instruction: %T", instr)
	}

	return kNext
}

// prepareCall determines the function value and argument values for a
// function call in a Call, Go or Defer instruction, performing
// interface method lookup if needed.
func prepareCall(fr *frame, call *ssa.CallCommon) (fn value, args []value) {
	v := fr.get(call.Value)
	if call.Method == nil {
		// Function call.
		fn = v
	} else {
		// Interface method invocation.
		recv := v.(iface)
		if recv.t == nil {
			panic(targetFault("runtime error: invalid memory address or nil pointer dereference (method " + call.Method.Name() + " invoked on nil interface)"))
		}
		if f := lookupMethod(fr.i, recv.t, call.Method); f == nil {
			// Unreachable in well-typed programs.
			abortf("method set for dynamic type %v does not contain %s", recv.t, call.Method)
		} else {
			fn = f
		}
		args = append(args, recv.v)
	}
	for _, arg := range call.Args {
		args = append(args, fr.get(arg))
	}
	return
}

// call interprets a call to a function (function, builtin or closure)
// fn with arguments args, returning its result.
// callpos is the position of the callsite.
func call(i *interpreter, caller *frame, callpos token.Pos, fn value, args []value) value {
	switch fn := fn.(type) {
	case *ssa.Function:
		if fn == nil {
			panic(targetFault("runtime error: invalid memory address or nil pointer dereference (call of nil func)"))
		}
		return callSSA(i, caller, callpos, fn, args, nil)
	case *closure:
		return callSSA(i, caller, callpos, fn.Fn, args, fn.Env)
	case *ssa.Builtin:
		return callBuiltin(caller, callpos, fn, args)
	case *nativeFunc:
		return fn.f(caller, args)
	}
	abortf("cannot call %T", fn)
	return nil
}

// nativeFunc is a func value implemented by the engine (e.g. a cancel func).
type nativeFunc struct {
	name string
	f    func(fr *frame, args []value) value
}

// callSSA interprets a call to function fn with arguments args,
// and lexical environment env, returning its result.
// callpos is the position of the callsite.
func callSSA(i *interpreter, caller *frame, callpos token.Pos, fn *ssa.Function, args []value, env []value) value {
	fr := &frame{
		i:      i,
		caller: caller, // for panic/recover
		fn:     fn,
	}
	if caller != nil {
		fr.g = caller.g
		fr.depth = caller.depth + 1
	} else {
		fr.g = i.cur
	}
	if fr.depth > i.cfg.MaxDepth {
		if i.cfg.RecursionIsFinding {
			// find the function that recurses: the most frequent one on the stack
			cnt := map[string]int{}
			best := fn.String()
			for f := caller; f != nil; f = f.caller {
				cnt[f.fn.String()]++
				if cnt[f.fn.String()] > cnt[best] {
					best = f.fn.String()
				}
			}
			i.violation("recursion", "unbounded recursion: "+best, fmt.Sprintf("call depth exceeded %d", i.cfg.MaxDepth), caller)
			i.endPath("recursion")
			panic(abortPath{})
		}
		i.recordBound("recursion depth > " + fmt.Sprint(i.cfg.MaxDepth) + " in " + fn.String())
		panic(engineAbort{"recursion depth bound exceeded in " + fn.String()})
	}
	if fn.Parent() == nil {
		if fn.Name() == "init" && fn.Pkg != nil && fn.Signature.Recv() == nil && !i.ld.initSet[fn.Pkg] {
			return nil // initialiser of a package that is not under test: not run (its globals come from stubs)
		}
		name := i.ld.fnName(fn)
		if len(i.cfg.Redirects) > 0 {
			if tgt, ok := i.cfg.Redirects[name]; ok {
				if tgt == "" {
					// stub: return zero values
					return zero(fn.Signature.Results())
				}
				tf := i.ld.funcByName(tgt)
				if tf == nil {
					abortf("redirect target %s for %s not found", tgt, name)
				}
				if i.res != nil {
					i.res.noteFunc(fn)
				}
				return callSSA(i, caller, callpos, tf, args, nil)
			}
		}
		if ext := externals[name]; ext != nil {
			return ext(fr, args)
		}
		if fn.Blocks == nil {
			if o := fn.Origin(); o != nil {
				if ext := externals[i.ld.fnName(o)]; ext != nil {
					return ext(fr, args)
				}
			}
			// generic instantiation wrappers and synthetic thunks have
			// bodies; anything else is code below the cut line.
			return i.unstubbed(fr, fn, args)
		}
	}

	// generic function body?
	if fn.TypeParams().Len() > 0 && len(fn.TypeArgs()) == 0 {
		abortf("generic function %s not instantiated", fn)
	}
	if i.res != nil {
		i.res.noteFunc(fn)
	}
	atomicFn := i.ld.isAtomicFn(fn)
	if atomicFn && fr.g != nil {
		fr.g.atomicDepth++
		defer func() { fr.g.atomicDepth-- }()
	}

	fr.env = make(map[ssa.Value]value)
	fr.block = fn.Blocks[0]
	fr.locals = make([]value, len(fn.Locals))
	for i, l := range fn.Locals {
		fr.locals[i] = zero(mustDeref(l.Type()))
		fr.env[l] = &fr.locals[i]
	}
	for i, p := range fn.Params {
		fr.env[p] = args[i]
	}
	for i, fv := range fn.FreeVars {
		fr.env[fv] = env[i]
	}
	if fr.g != nil {
		saved := fr.g.top
		fr.g.top = fr
		defer func() { fr.g.top = saved }()
	}
	for fr.block != nil {
		runFrame(fr)
	}
	return fr.result
}

// runFrame executes SSA instructions starting at fr.block and
// continuing until a return, a panic, or a recovered panic.
func runFrame(fr *frame) {
	defer func() {
		if fr.block == nil {
			return // normal return
		}
		r := recover()
		switch x := r.(type) {
		case abortPath, engineAbort:
			panic(r)
		case runtime.Error:
			// A Go runtime error inside the interpreter itself is an engine
			// defect (all target faults are raised explicitly as targetFault).
			buf := make([]byte, 4096)
			buf = buf[:runtime.Stack(buf, false)]
			panic(engineAbort{fmt.Sprintf("interpreter runtime error at %s: %v\n%s", fr.pos(), x, buf)})
		case string:
			panic(engineAbort{fmt.Sprintf("interpreter panic at %s: %s", fr.pos(), x)})
		}
		fr.panicking = true
		fr.panic = r
		if fr.i.res != nil && fr.i.res.panicStack == nil {
			fr.i.res.panicStack = fr.stack()
		}
		fr.runDefers()
		fr.block = fr.fn.Recover
	}()

	it := fr.i
	for {
		if fr.visits == nil {
			fr.visits = map[*ssa.BasicBlock]int{}
		}
		fr.visits[fr.block]++
		if fr.visits[fr.block] > it.cfg.Unwind {
			it.recordBound("unwind > " + fmt.Sprint(it.cfg.Unwind) + " at " + fr.pos())
			panic(engineAbort{"unwinding bound exceeded at " + fr.pos()})
		}
		nonPhis := executePhis(fr)
		for _, instr := range nonPhis {
			fr.curInstr = instr
			it.instrs++
			if it.instrs > it.cfg.MaxInstr {
				it.recordBound("instruction budget exceeded")
				panic(engineAbort{"instruction budget exceeded at " + fr.pos()})
			}
			if it.cfg.Trace {
				if v, ok := instr.(ssa.Value); ok {
					fmt.Fprintln(os.Stderr, "g", fr.g.id, fr.pos(), "\t", v.Name(), "=", instr)
				} else {
					fmt.Fprintln(os.Stderr, "g", fr.g.id, fr.pos(), "\t", instr)
				}
			}
			if visitInstr(fr, instr) == kReturn {
				return
			}
			// Inv: kNext (continue) or kJump (last instr)
		}
	}
}

// executePhis executes the phi-nodes at the start of the current
// block and returns the non-phi instructions.
func executePhis(fr *frame) []ssa.Instruction {
	firstNonPhi := -1
	for i, instr := range fr.block.Instrs {
		if _, ok := instr.(*ssa.Phi); !ok {
			firstNonPhi = i
			break
		}
	}
	// Inv: 0 <= firstNonPhi; every block contains a non-phi.

	nonPhis := fr.block.Instrs[firstNonPhi:]
	if firstNonPhi > 0 {
		phis := fr.block.Instrs[:firstNonPhi]
		predIndex := slices.Index(fr.block.Preds, fr.prevBlock)
		fr.phitemps = fr.phitemps[:0]
		for _, phi := range phis {
			phi := phi.(*ssa.Phi)
			fr.phitemps = append(fr.phitemps, fr.get(phi.Edges[predIndex]))
		}
		for i, phi := range phis {
			fr.env[phi.(*ssa.Phi)] = fr.phitemps[i]
		}
	}
	return nonPhis
}

// doRecover implements the recover() built-in.
func doRecover(caller *frame) value {
	// recover() must be exactly one level beneath the deferred
	// function (two levels beneath the panicking function) to
	// have any effect.  Thus we ignore both "defer recover()" and
	// "defer f() -> g() -> recover()".
	if caller != nil && !caller.panicking &&
		caller.caller != nil && caller.caller.panicking {
		caller.caller.panicking = false
		p := caller.caller.panic
		caller.caller.panic = nil

		switch p := p.(type) {
		case targetPanic:
			// The target program explicitly called panic().
			return p.v
		case targetFault:
			return iface{caller.i.runtimeErrorType(), string(p)}
		default:
			panic(engineAbort{fmt.Sprintf("unexpected panic type %T in target call to recover()", p)})
		}
	}
	return iface{}
}

func (i *interpreter) runtimeErrorType() types.Type {
	return errorType
}

// newInterpreter creates the per-path state.
func newInterpreter(ld *Loaded, cfg *Config, solver *Solver, pc *pathCtl) *interpreter {
	i := &interpreter{
		prog:    ld.Prog,
		ld:      ld,
		globals: make(map[*ssa.Global]*value),
		sizes:   ld.Sizes,
		cfg:     cfg,
		pc:      pc,
		solver:  solver,
		counts:  map[string]int{},
		mutexes: map[*value]*mutexState{},
		wgs:     map[*value]*wgState{},
		atomics: map[*value]*value{},
		covered: map[string]bool{},
	}
	initReflect(i)
	if cfg.HB {
		i.hb = newHB()
	}
	return i
}
