// Copyright 2013 The Go Authors. All rights reserved.
// Use of this source code is governed by a BSD-style
// license that can be found in the LICENSE file.

package symgo

// Emulated "reflect" package.
//
// We completely replace the built-in "reflect" package.
// The only thing clients can depend upon are that reflect.Type is an
// interface and reflect.Value is an (opaque) struct.

import (
	"fmt"
	"go/token"
	"go/types"
	"reflect"
	"unsafe"

	"golang.org/x/tools/go/ssa"
)

type opaqueType struct {
	types.Type
	name string
}

func (t *opaqueType) String() string { return t.name }

// A bogus "reflect" type-checker package.  Shared across interpreters.
var reflectTypesPackage = types.NewPackage("reflect", "reflect")

// rtype is the concrete type the interpreter uses to implement the
// reflect.Type interface.
//
// type rtype <opaque>
var rtypeType = makeNamedType("rtype", &opaqueType{nil, "rtype"})

// error is an (interpreted) named type whose underlying type is string.
// The interpreter uses it for all implementations of the built-in error
// interface that it creates.
// We put it in the "reflect" package for expedience.
//
// type error string
var errorType = makeNamedType("error", &opaqueType{nil, "error"})

func makeNamedType(name string, underlying types.Type) *types.Named {
	obj := types.NewTypeName(token.NoPos, reflectTypesPackage, name, nil)
	return types.NewNamed(obj, underlying, nil)
}

func makeReflectValue(t types.Type, v value) value {
	return structure{rtype{t}, v}
}

// Given a reflect.Value, returns its rtype.
func rV2T(v value) rtype {
	return v.(structure)[0].(rtype)
}

// Given a reflect.Value, returns the underlying interpreter value.
func rV2V(v value) value {
	return v.(structure)[1]
}

// makeReflectType boxes up an rtype in a reflect.Type interface.
func makeReflectType(rt rtype) value {
	return iface{rtypeType, rt}
}

func ext۰reflect۰rtype۰Bits(fr *frame, args []value) value {
	// Signature: func (t reflect.rtype) int
	rt := args[0].(rtype).t
	basic, ok := rt.Underlying().(*types.Basic)
	if !ok {
		panic(fmt.Sprintf("reflect.Type.Bits(%T): non-basic type", rt))
	}
	return int(fr.i.sizes.Sizeof(basic)) * 8
}

func ext۰reflect۰rtype۰Elem(fr *frame, args []value) value {
	// Signature: func (t reflect.rtype) reflect.Type
	return makeReflectType(rtype{args[0].(rtype).t.Underlying().(interface {
		Elem() types.Type
	}).Elem()})
}

func ext۰reflect۰rtype۰Field(fr *frame, args []value) value {
	// Signature: func (t reflect.rtype, i int) reflect.StructField
	st := args[0].(rtype).t.Underlying().(*types.Struct)
	i := args[1].(int)
	f := st.Field(i)
	return structure{
		f.Name(),
		f.Pkg().Path(),
		makeReflectType(rtype{f.Type()}),
		st.Tag(i),
		0,         // TODO(adonovan): offset
		[]value{}, // TODO(adonovan): indices
		f.Anonymous(),
	}
}

func ext۰reflect۰rtype۰In(fr *frame, args []value) value {
	// Signature: func (t reflect.rtype, i int) int
	i := args[1].(int)
	return makeReflectType(rtype{args[0].(rtype).t.(*types.Signature).Params().At(i).Type()})
}

func ext۰reflect۰rtype۰Kind(fr *frame, args []value) value {
	// Signature: func (t reflect.rtype) uint
	return uint(reflectKind(args[0].(rtype).t))
}

func ext۰reflect۰rtype۰NumField(fr *frame, args []value) value {
	// Signature: func (t reflect.rtype) int
	return args[0].(rtype).t.Underlying().(*types.Struct).NumFields()
}

func ext۰reflect۰rtype۰NumIn(fr *frame, args []value) value {
	// Signature: func (t reflect.rtype) int
	return args[0].(rtype).t.Underlying().(*types.Signature).Params().Len()
}

func ext۰reflect۰rtype۰NumMethod(fr *frame, args []value) value {
	// Signature: func (t reflect.rtype) int
	return fr.i.prog.MethodSets.MethodSet(args[0].(rtype).t).Len()
}

func ext۰reflect۰rtype۰NumOut(fr *frame, args []value) value {
	// Signature: func (t reflect.rtype) int
	return args[0].(rtype).t.Underlying().(*types.Signature).Results().Len()
}

func ext۰reflect۰rtype۰Out(fr *frame, args []value) value {
	// Signature: func (t reflect.rtype, i int) int
	i := args[1].(int)
	return makeReflectType(rtype{args[0].(rtype).t.Underlying().(*types.Signature).Results().At(i).Type()})
}

func ext۰reflect۰rtype۰Size(fr *frame, args []value) value {
	// Signature: func (t reflect.rtype) uintptr
	return uintptr(fr.i.sizes.Sizeof(args[0].(rtype).t))
}

func ext۰reflect۰rtype۰String(fr *frame, args []value) value {
	// Signature: func (t reflect.rtype) string
	return args[0].(rtype).t.String()
}

func ext۰reflect۰New(fr *frame, args []value) value {
	// Signature: func (t reflect.Type) reflect.Value
	t := args[0].(iface).v.(rtype).t
	alloc := zero(t)
	return makeReflectValue(types.NewPointer(t), &alloc)
}

func ext۰reflect۰SliceOf(fr *frame, args []value) value {
	// Signature: func (t reflect.rtype) Type
	return makeReflectType(rtype{types.NewSlice(args[0].(iface).v.(rtype).t)})
}

func ext۰reflect۰TypeOf(fr *frame, args []value) value {
	// Signature: func (t reflect.rtype) Type
	if args[0].(iface).t == nil {
		return iface{} // reflect.TypeOf(nil) is the nil Type: a method call on it is the target's nil dereference
	}
	return makeReflectType(rtype{args[0].(iface).t})
}

func ext۰reflect۰ValueOf(fr *frame, args []value) value {
	// Signature: func (interface{}) reflect.Value
	itf := args[0].(iface)
	return makeReflectValue(itf.t, itf.v)
}

func ext۰reflect۰Zero(fr *frame, args []value) value {
	// Signature: func (t reflect.Type) reflect.Value
	t := args[0].(iface).v.(rtype).t
	return makeReflectValue(t, zero(t))
}

func reflectKind(t types.Type) reflect.Kind {
	switch t := t.(type) {
	case *types.Named, *types.Alias:
		return reflectKind(t.Underlying())
	case *types.Basic:
		switch t.Kind() {
		case types.Bool:
			return reflect.Bool
		case types.Int:
			return reflect.Int
		case types.Int8:
			return reflect.Int8
		case types.Int16:
			return reflect.Int16
		case types.Int32:
			return reflect.Int32
		case types.Int64:
			return reflect.Int64
		case types.Uint:
			return reflect.Uint
		case types.Uint8:
			return reflect.Uint8
		case types.Uint16:
			return reflect.Uint16
		case types.Uint32:
			return reflect.Uint32
		case types.Uint64:
			return reflect.Uint64
		case types.Uintptr:
			return reflect.Uintptr
		case types.Float32:
			return reflect.Float32
		case types.Float64:
			return reflect.Float64
		case types.Complex64:
			return reflect.Complex64
		case types.Complex128:
			return reflect.Complex128
		case types.String:
			return reflect.String
		case types.UnsafePointer:
			return reflect.UnsafePointer
		}
	case *types.Array:
		return reflect.Array
	case *types.Chan:
		return reflect.Chan
	case *types.Signature:
		return reflect.Func
	case *types.Interface:
		return reflect.Interface
	case *types.Map:
		return reflect.Map
	case *types.Pointer:
		return reflect.Ptr
	case *types.Slice:
		return reflect.Slice
	case *types.Struct:
		return reflect.Struct
	}
	panic(fmt.Sprint("unexpected type: ", t))
}

func ext۰reflect۰Value۰Kind(fr *frame, args []value) value {
	if rV2T(args[0]).t == nil {
		return uint(reflect.Invalid)
	}
	// Signature: func (reflect.Value) uint
	return uint(reflectKind(rV2T(args[0]).t))
}

// CanInt / CanUint / CanFloat / CanConvert-free kind predicates of reflect.Value.
func kindIn(args []value, lo, hi reflect.Kind) value {
	if rV2T(args[0]).t == nil {
		return false
	}
	k := reflectKind(rV2T(args[0]).t)
	return k >= lo && k <= hi
}
func ext۰reflect۰Value۰CanInt(fr *frame, args []value) value {
	return kindIn(args, reflect.Int, reflect.Int64)
}
func ext۰reflect۰Value۰CanUint(fr *frame, args []value) value {
	return kindIn(args, reflect.Uint, reflect.Uintptr)
}
func ext۰reflect۰Value۰CanFloat(fr *frame, args []value) value {
	return kindIn(args, reflect.Float32, reflect.Float64)
}

func ext۰reflect۰Value۰String(fr *frame, args []value) value {
	// Signature: func (reflect.Value) string
	return toString(rV2V(args[0]))
}

func ext۰reflect۰Value۰Type(fr *frame, args []value) value {
	// Signature: func (reflect.Value) reflect.Type
	return makeReflectType(rV2T(args[0]))
}

func ext۰reflect۰Value۰Uint(fr *frame, args []value) value {
	// Signature: func (reflect.Value) uint64
	switch v := rV2V(args[0]).(type) {
	case uint:
		return uint64(v)
	case uint8:
		return uint64(v)
	case uint16:
		return uint64(v)
	case uint32:
		return uint64(v)
	case uint64:
		return uint64(v)
	case uintptr:
		return uint64(v)
	}
	panic("reflect.Value.Uint")
}

func ext۰reflect۰Value۰Len(fr *frame, args []value) value {
	// Signature: func (reflect.Value) int
	switch v := rV2V(args[0]).(type) {
	case string:
		return len(v)
	case array:
		return len(v)
	case *Chan:
		return len(v.buf)
	case []value:
		return len(v)
	case *omap:
		return v.len()
	default:
		panic(fmt.Sprintf("reflect.(Value).Len(%v)", v))
	}
}

func ext۰reflect۰Value۰MapIndex(fr *frame, args []value) value {
	// Signature: func (reflect.Value) Value
	tValue := rV2T(args[0]).t.Underlying().(*types.Map).Elem()
	k := rV2V(args[1])
	switch m := rV2V(args[0]).(type) {
	case *omap:
		if v, ok := m.lookup(k); ok {
			return makeReflectValue(tValue, v)
		}
	default:
		panic(fmt.Sprintf("(reflect.Value).MapIndex(%T, %T)", m, k))
	}
	return makeReflectValue(nil, nil)
}

func ext۰reflect۰Value۰MapKeys(fr *frame, args []value) value {
	// Signature: func (reflect.Value) []Value
	var keys []value
	tKey := rV2T(args[0]).t.Underlying().(*types.Map).Key()
	switch v := rV2V(args[0]).(type) {
	case *omap:
		site := fr
		if fr.caller != nil {
			site = fr.caller // the range site is the caller of MapKeys
		}
		for _, e := range fr.i.mapOrder(site, v) {
			keys = append(keys, makeReflectValue(tKey, e.key))
		}
	default:
		panic(fmt.Sprintf("(reflect.Value).MapKeys(%T)", v))
	}
	return keys
}

func ext۰reflect۰Value۰NumField(fr *frame, args []value) value {
	// Signature: func (reflect.Value) int
	return len(rV2V(args[0]).(structure))
}

func ext۰reflect۰Value۰NumMethod(fr *frame, args []value) value {
	// Signature: func (reflect.Value) int
	return fr.i.prog.MethodSets.MethodSet(rV2T(args[0]).t).Len()
}

func ext۰reflect۰Value۰Pointer(fr *frame, args []value) value {
	// Signature: func (v reflect.Value) uintptr
	switch v := rV2V(args[0]).(type) {
	case *value:
		return uintptr(unsafe.Pointer(v))
	case *Chan:
		return uintptr(unsafe.Pointer(v))
	case []value:
		return reflect.ValueOf(v).Pointer()
	case *omap:
		return uintptr(unsafe.Pointer(v))
	case *ssa.Function:
		return uintptr(unsafe.Pointer(v))
	case *closure:
		return uintptr(unsafe.Pointer(v))
	default:
		panic(fmt.Sprintf("reflect.(Value).Pointer(%T)", v))
	}
}

func ext۰reflect۰Value۰Index(fr *frame, args []value) value {
	// Signature: func (v reflect.Value, i int) Value
	i := args[1].(int)
	t := rV2T(args[0]).t.Underlying()
	switch v := rV2V(args[0]).(type) {
	case array:
		return makeReflectValue(t.(*types.Array).Elem(), v[i])
	case []value:
		return makeReflectValue(t.(*types.Slice).Elem(), v[i])
	default:
		panic(fmt.Sprintf("reflect.(Value).Index(%T)", v))
	}
}

func ext۰reflect۰Value۰Bool(fr *frame, args []value) value {
	// Signature: func (reflect.Value) bool
	return rV2V(args[0]).(bool)
}

func ext۰reflect۰Value۰CanAddr(fr *frame, args []value) value {
	// Signature: func (v reflect.Value) bool
	// Always false for our representation.
	return false
}

func ext۰reflect۰Value۰CanInterface(fr *frame, args []value) value {
	// Signature: func (v reflect.Value) bool
	// Always true for our representation.
	return true
}

func ext۰reflect۰Value۰Elem(fr *frame, args []value) value {
	// Signature: func (v reflect.Value) reflect.Value
	switch x := rV2V(args[0]).(type) {
	case iface:
		return makeReflectValue(x.t, x.v)
	case *value:
		var v value
		if x != nil {
			v = *x
		}
		return makeReflectValue(rV2T(args[0]).t.Underlying().(*types.Pointer).Elem(), v)
	default:
		panic(fmt.Sprintf("reflect.(Value).Elem(%T)", x))
	}
}

func ext۰reflect۰Value۰Field(fr *frame, args []value) value {
	// Signature: func (v reflect.Value, i int) reflect.Value
	v := args[0]
	i := args[1].(int)
	return makeReflectValue(rV2T(v).t.Underlying().(*types.Struct).Field(i).Type(), rV2V(v).(structure)[i])
}

func ext۰reflect۰Value۰Float(fr *frame, args []value) value {
	// Signature: func (reflect.Value) float64
	switch v := rV2V(args[0]).(type) {
	case float32:
		return float64(v)
	case float64:
		return float64(v)
	}
	panic("reflect.Value.Float")
}

func ext۰reflect۰Value۰Interface(fr *frame, args []value) value {
	// Signature: func (v reflect.Value) interface{}
	return ext۰reflect۰valueInterface(fr, args)
}

func ext۰reflect۰Value۰Int(fr *frame, args []value) value {
	// Signature: func (reflect.Value) int64
	switch x := rV2V(args[0]).(type) {
	case int:
		return int64(x)
	case int8:
		return int64(x)
	case int16:
		return int64(x)
	case int32:
		return int64(x)
	case int64:
		return x
	default:
		panic(fmt.Sprintf("reflect.(Value).Int(%T)", x))
	}
}

func ext۰reflect۰Value۰IsNil(fr *frame, args []value) value {
	// Signature: func (reflect.Value) bool
	switch x := rV2V(args[0]).(type) {
	case *value:
		return x == nil
	case *Chan:
		return x == nil
	case *omap:
		return x == nil
	case iface:
		return x.t == nil
	case []value:
		return x == nil
	case *ssa.Function:
		return x == nil
	case *ssa.Builtin:
		return x == nil
	case *closure:
		return x == nil
	default:
		panic(fmt.Sprintf("reflect.(Value).IsNil(%T)", x))
	}
}

func ext۰reflect۰Value۰IsZero(fr *frame, args []value) value {
	// Signature: func (reflect.Value) bool
	t := rV2T(args[0]).t
	if t == nil {
		panic(targetFault("reflect: call of reflect.Value.IsZero on zero Value"))
	}
	return isZeroValue(t, rV2V(args[0]))
}

// isZeroValue reports (possibly symbolically) whether v is the zero value of its type.
func isZeroValue(t types.Type, v value) value {
	switch x := v.(type) {
	case *Sym:
		switch x.s {
		case SBool:
			return symNot(x)
		case SStr:
			return &Sym{SBool, app("=", x.e, `""`)}
		case SFP64:
			return &Sym{SBool, app("fp.isZero", x.e)}
		default:
			return &Sym{SBool, app("=", x.e, bvLit(x.s.width(), 0))}
		}
	case structure:
		st := t.Underlying().(*types.Struct)
		var r value = true
		for i := range x {
			r = valAnd(r, isZeroValue(st.Field(i).Type(), x[i]))
		}
		return r
	case array:
		et := t.Underlying().(*types.Array).Elem()
		var r value = true
		for i := range x {
			r = valAnd(r, isZeroValue(et, x[i]))
		}
		return r
	case iface:
		return x.t == nil
	case *value:
		return x == nil
	case *omap:
		return x == nil
	case []value:
		return x == nil
	case *Chan:
		return x == nil
	case *ssa.Function:
		return x == nil
	case *closure:
		return x == nil
	}
	return equals(t, v, zero(t))
}

func ext۰reflect۰Value۰IsValid(fr *frame, args []value) value {
	// Signature: func (reflect.Value) bool
	return rV2V(args[0]) != nil
}

func ext۰reflect۰Value۰Set(fr *frame, args []value) value {
	// TODO(adonovan): implement.
	return nil
}

func ext۰reflect۰Indirect(fr *frame, args []value) value {
	v := args[0].(structure)
	if rV2T(v).t == nil {
		return v
	}
	if _, ok := rV2T(v).t.Underlying().(*types.Pointer); ok {
		return ext۰reflect۰Value۰Elem(fr, args)
	}
	return v
}

func ext۰reflect۰Value۰FieldByName(fr *frame, args []value) value {
	v := args[0].(structure)
	st, ok := rV2T(v).t.Underlying().(*types.Struct)
	if !ok {
		panic(targetFault("reflect: call of reflect.Value.FieldByName on non-struct Value"))
	}
	name := args[1].(string)
	for i := 0; i < st.NumFields(); i++ {
		if st.Field(i).Name() == name {
			return makeReflectValue(st.Field(i).Type(), rV2V(v).(structure)[i])
		}
	}
	return makeReflectValue(nil, nil)
}

func ext۰reflect۰valueInterface(fr *frame, args []value) value {
	// Signature: func (v reflect.Value, safe bool) interface{}
	v := args[0].(structure)
	if t := rV2T(v).t; t != nil {
		if _, ok := t.Underlying().(*types.Interface); ok {
			// a Value of interface kind (map element / key of type any): the result is the interface value itself
			if in, ok := rV2V(v).(iface); ok {
				return in
			}
		}
	}
	return iface{rV2T(v).t, rV2V(v)}
}

func ext۰reflect۰error۰Error(fr *frame, args []value) value {
	return args[0]
}

// newMethod creates a new method of the specified name, package and receiver type.
func newMethod(pkg *ssa.Package, recvType types.Type, name string) *ssa.Function {
	// TODO(adonovan): fix: hack: currently the only part of Signature
	// that is needed is the "pointerness" of Recv.Type, and for
	// now, we'll set it to always be false since we're only
	// concerned with rtype.  Encapsulate this better.
	sig := types.NewSignature(types.NewVar(token.NoPos, nil, "recv", recvType), nil, nil, false)
	fn := pkg.Prog.NewFunction(name, sig, "fake reflect method")
	fn.Pkg = pkg
	return fn
}

func initReflect(i *interpreter) {
	i.reflectPackage = i.ld.reflectPackage
	i.rtypeMethods = i.ld.rtypeMethods
	i.errorMethods = i.ld.errorMethods
}

func initReflectOnce(i *Loaded) {
	i.prog = i.Prog
	i.reflectPackage = &ssa.Package{
		Prog:    i.prog,
		Pkg:     reflectTypesPackage,
		Members: make(map[string]ssa.Member),
	}

	// Clobber the type-checker's notion of reflect.Value's
	// underlying type so that it more closely matches the fake one
	// (at least in the number of fields---we lie about the type of
	// the rtype field).
	//
	// We must ensure that calls to (ssa.Value).Type() return the
	// fake type so that correct "shape" is used when allocating
	// variables, making zero values, loading, and storing.
	//
	// TODO(adonovan): obviously this is a hack.  We need a cleaner
	// way to fake the reflect package (almost---DeepEqual is fine).
	// One approach would be not to even load its source code, but
	// provide fake source files.  This would guarantee that no bad
	// information leaks into other packages.
	if r := i.prog.ImportedPackage("reflect"); r != nil {
		rV := r.Pkg.Scope().Lookup("Value").Type().(*types.Named)

		// delete bodies of the old methods
		mset := i.prog.MethodSets.MethodSet(rV)
		for j := 0; j < mset.Len(); j++ {
			i.prog.MethodValue(mset.At(j)).Blocks = nil
		}

		tEface := types.NewInterface(nil, nil).Complete()
		rV.SetUnderlying(types.NewStruct([]*types.Var{
			types.NewField(token.NoPos, r.Pkg, "t", tEface, false), // a lie
			types.NewField(token.NoPos, r.Pkg, "v", tEface, false),
		}, nil))
	}

	i.rtypeMethods = methodSet{
		"Bits":      newMethod(i.reflectPackage, rtypeType, "Bits"),
		"Elem":      newMethod(i.reflectPackage, rtypeType, "Elem"),
		"Field":     newMethod(i.reflectPackage, rtypeType, "Field"),
		"In":        newMethod(i.reflectPackage, rtypeType, "In"),
		"Kind":      newMethod(i.reflectPackage, rtypeType, "Kind"),
		"NumField":  newMethod(i.reflectPackage, rtypeType, "NumField"),
		"NumIn":     newMethod(i.reflectPackage, rtypeType, "NumIn"),
		"NumMethod": newMethod(i.reflectPackage, rtypeType, "NumMethod"),
		"NumOut":    newMethod(i.reflectPackage, rtypeType, "NumOut"),
		"Out":       newMethod(i.reflectPackage, rtypeType, "Out"),
		"Size":      newMethod(i.reflectPackage, rtypeType, "Size"),
		"String":    newMethod(i.reflectPackage, rtypeType, "String"),
	}
	i.errorMethods = methodSet{
		"Error": newMethod(i.reflectPackage, errorType, "Error"),
	}
}
