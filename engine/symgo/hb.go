package symgo

// Happens-before monitor (vector clocks) for the C17 data-race property.

import (
	"fmt"
	"path/filepath"
	"sort"
	"strings"

	"golang.org/x/tools/go/ssa"
)

type hbAccess struct {
	g     int
	clock int
	pos   string
	fn    string
	repo  bool
}

type hbLoc struct {
	write *hbAccess
	reads map[int]*hbAccess
}

type hbState struct {
	locs    map[*value]*hbLoc
	objs    map[*omap]*hbLoc
	atomics map[*value]*[]int
	races   map[string]bool
}

func newHB() *hbState {
	return &hbState{locs: map[*value]*hbLoc{}, objs: map[*omap]*hbLoc{}, atomics: map[*value]*[]int{}, races: map[string]bool{}}
}

func vcJoin(dst *[]int, src []int) {
	for len(*dst) < len(src) {
		*dst = append(*dst, 0)
	}
	for i, v := range src {
		if v > (*dst)[i] {
			(*dst)[i] = v
		}
	}
}

func (g *goroutine) tick() {
	for len(g.vc) <= g.id {
		g.vc = append(g.vc, 0)
	}
	g.vc[g.id]++
}

func (h *hbState) fork(parent, child *goroutine) {
	if parent != nil {
		child.vc = append([]int(nil), parent.vc...)
		parent.tick()
	}
	child.tick()
}

func (h *hbState) acquire(g *goroutine, vc []int) {
	if g == nil {
		return
	}
	vcJoin(&g.vc, vc)
}

func (h *hbState) release(g *goroutine, vc *[]int) {
	if g == nil {
		return
	}
	vcJoin(vc, g.vc)
	g.tick()
}

func (h *hbState) chanSend(g *goroutine, c *Chan) {
	c.vcs = append(c.vcs, append([]int(nil), g.vc...))
	g.tick()
}

func (h *hbState) chanRecv(g *goroutine, c *Chan) {
	if len(c.vcs) > 0 {
		vcJoin(&g.vc, c.vcs[0])
		c.vcs = c.vcs[1:]
	}
}

func (h *hbState) wgAdd(fr *frame, w *wgState, delta int) {
	if delta < 0 {
		h.release(fr.g, &w.vc)
	}
}

func (h *hbState) atomicOp(g *goroutine, p *value) {
	vc := h.atomics[p]
	if vc == nil {
		vc = new([]int)
		h.atomics[p] = vc
	}
	vcJoin(&g.vc, *vc)
	vcJoin(vc, g.vc)
	g.tick()
}

func hbBefore(a *hbAccess, g *goroutine) bool {
	if a.g == g.id {
		return true
	}
	return a.g < len(g.vc) && a.clock <= g.vc[a.g]
}

// tracked: only accesses through non-local addresses.
func trackedAddr(fr *frame) bool {
	var addr ssa.Value
	switch in := fr.curInstr.(type) {
	case *ssa.Store:
		addr = in.Addr
	case *ssa.UnOp:
		addr = in.X
	default:
		return false
	}
	if a, ok := addr.(*ssa.Alloc); ok && !a.Heap {
		return false
	}
	if fr.g != nil && fr.g.atomicDepth > 0 {
		return false
	}
	return true
}

func (h *hbState) check(fr *frame, loc *hbLoc, isWrite bool, what string) {
	g := fr.g
	if g == nil {
		return
	}
	cur := &hbAccess{g: g.id, pos: fr.pos(), fn: fr.fn.String(), repo: fr.i.ld.isRepoFn(fr.fn)}
	if g.id < len(g.vc) {
		cur.clock = g.vc[g.id]
	}
	report := func(prev *hbAccess, kind string) {
		if !prev.repo || !cur.repo {
			return // only accesses made by repository code are the property's subject
		}
		pair := []string{prev.fn, cur.fn}
		sort.Strings(pair)
		key := "race:" + pair[0] + "|" + pair[1]
		if h.races[key] {
			return
		}
		h.races[key] = true
		fr.i.violation("race", key, fmt.Sprintf("%s: %s by g%d in %s at %s is unordered with access by g%d in %s at %s (%s)",
			kind, rw(isWrite), g.id, cur.fn, cur.pos, prev.g, prev.fn, prev.pos, what), fr)
	}
	if loc.write != nil && !hbBefore(loc.write, g) {
		report(loc.write, "write/"+rw(isWrite))
	}
	if isWrite {
		for _, r := range loc.reads {
			if !hbBefore(r, g) {
				report(r, "read/write")
			}
		}
		loc.write = cur
		loc.reads = nil
	} else {
		if loc.reads == nil {
			loc.reads = map[int]*hbAccess{}
		}
		loc.reads[g.id] = cur
	}
}

func rw(w bool) string {
	if w {
		return "write"
	}
	return "read"
}

func (h *hbState) access(fr *frame, addr *value, isWrite bool) {
	if !trackedAddr(fr) {
		return
	}
	loc := h.locs[addr]
	if loc == nil {
		loc = &hbLoc{}
		h.locs[addr] = loc
	}
	h.check(fr, loc, isWrite, "memory cell")
}

// accessNative records an access made on behalf of fr (the calling repository function) by a library
// function that the engine models natively.
func (h *hbState) accessNative(fr *frame, addr *value, isWrite bool, what string) {
	if fr.g != nil && fr.g.atomicDepth > 0 {
		return
	}
	loc := h.locs[addr]
	if loc == nil {
		loc = &hbLoc{}
		h.locs[addr] = loc
	}
	h.check(fr, loc, isWrite, what)
}

func (h *hbState) accessObj(fr *frame, m *omap, isWrite bool) {
	if fr.g != nil && fr.g.atomicDepth > 0 {
		return
	}
	loc := h.objs[m]
	if loc == nil {
		loc = &hbLoc{}
		h.objs[m] = loc
	}
	h.check(fr, loc, isWrite, "map")
}

// host path helpers (POSIX semantics)
func joinPath(elem ...string) string { return filepath.Join(elem...) }
func isAbsPath(p string) bool        { return strings.HasPrefix(p, "/") }
func cleanPath(p string) string      { return filepath.Clean(p) }
func dirPath(p string) string        { return filepath.Dir(p) }
func basePath(p string) string       { return filepath.Base(p) }
