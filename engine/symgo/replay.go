package symgo

// Counterexample replay: (1) concrete re-execution of the SSA with the model
// substituted for every symbolic input and every decision fixed; (2) native
// re-execution of the same harness with `go test -overlay`.

import (
	"encoding/json"
	"fmt"
	"math"
	"os"
	"os/exec"
	"path/filepath"
	"strconv"
	"strings"
	"time"
)

type ReplayFile struct {
	Property  string            `json:"property"`
	Harness   HarnessSpec       `json:"harness"`
	Config    Config            `json:"config"`
	Violation Violation         `json:"violation"`
	Decisions []Decision        `json:"decisions"` // full symbolic trace
	Concrete  []int             `json:"concrete_decisions"`
	Model     map[string]string `json:"model"`
	Native    struct {
		Values  map[string][]any `json:"values"`
		Choices []int            `json:"choices"`
	} `json:"native"`
	Stage1 ReplayVerdict `json:"ssa_concrete_replay"`
	Stage2 *ReplayVerdict `json:"native_replay,omitempty"`
}

type ReplayVerdict struct {
	Reproduced bool   `json:"reproduced"`
	Detail     string `json:"detail"`
}

func BuildReplay(prop string, hs HarnessSpec, cfg *Config, v Violation) *ReplayFile {
	rp := &ReplayFile{Property: prop, Harness: hs, Config: *cfg, Violation: v, Model: v.Model}
	rp.Native.Values = map[string][]any{}
	return rp
}

// parseModelValue converts an SMT-LIB model value to a Go value of the sort.
func parseModelValue(sort Sort, goT string, s string) (value, any, error) {
	s = strings.TrimSpace(s)
	switch sort {
	case SBool:
		return s == "true", s == "true", nil
	case SBV8, SBV16, SBV32, SBV64:
		var u uint64
		var err error
		switch {
		case strings.HasPrefix(s, "#x"):
			u, err = strconv.ParseUint(s[2:], 16, 64)
		case strings.HasPrefix(s, "#b"):
			u, err = strconv.ParseUint(s[2:], 2, 64)
		case strings.HasPrefix(s, "(_ bv"):
			f := strings.Fields(strings.Trim(s, "()"))
			u, err = strconv.ParseUint(strings.TrimPrefix(f[1], "bv"), 10, 64)
		default:
			err = fmt.Errorf("unrecognised bit-vector value %q", s)
		}
		if err != nil {
			return nil, nil, err
		}
		switch goT {
		case "int":
			return int(int64(u)), int64(u), nil
		case "int64":
			return int64(u), int64(u), nil
		case "uint64":
			return u, u, nil
		case "int32":
			return int32(u), int32(u), nil
		case "uint8":
			return uint8(u), uint8(u), nil
		}
		return int64(u), int64(u), nil
	case SFP64:
		f, err := parseFP(s)
		if err != nil {
			return nil, nil, err
		}
		return f, math.Float64bits(f), nil
	case SStr:
		if len(s) >= 2 && s[0] == '"' {
			body := s[1 : len(s)-1]
			body = strings.ReplaceAll(body, `""`, `"`)
			var b strings.Builder
			for i := 0; i < len(body); i++ {
				if strings.HasPrefix(body[i:], `\u{`) {
					j := strings.IndexByte(body[i:], '}')
					if j > 0 {
						n, err := strconv.ParseUint(body[i+3:i+j], 16, 32)
						if err == nil {
							if n < 256 {
								b.WriteByte(byte(n))
							} else {
								b.WriteRune(rune(n))
							}
							i += j
							continue
						}
					}
				}
				if strings.HasPrefix(body[i:], `\x`) && i+3 < len(body) {
					n, err := strconv.ParseUint(body[i+2:i+4], 16, 8)
					if err == nil {
						b.WriteByte(byte(n))
						i += 3
						continue
					}
				}
				b.WriteByte(body[i])
			}
			return b.String(), b.String(), nil
		}
		return nil, nil, fmt.Errorf("unrecognised string value %q", s)
	}
	return nil, nil, fmt.Errorf("unsupported sort")
}

func parseFP(s string) (float64, error) {
	s = strings.TrimSpace(s)
	switch {
	case strings.HasPrefix(s, "(_ +zero"):
		return 0, nil
	case strings.HasPrefix(s, "(_ -zero"):
		return math.Copysign(0, -1), nil
	case strings.HasPrefix(s, "(_ +oo"):
		return math.Inf(1), nil
	case strings.HasPrefix(s, "(_ -oo"):
		return math.Inf(-1), nil
	case strings.HasPrefix(s, "(_ NaN"):
		return math.NaN(), nil
	case strings.HasPrefix(s, "(fp "):
		f := strings.Fields(strings.Trim(s, "()"))
		if len(f) != 4 {
			return 0, fmt.Errorf("bad fp literal %q", s)
		}
		bits := func(x string) (uint64, int, error) {
			if strings.HasPrefix(x, "#b") {
				u, err := strconv.ParseUint(x[2:], 2, 64)
				return u, len(x) - 2, err
			}
			if strings.HasPrefix(x, "#x") {
				u, err := strconv.ParseUint(x[2:], 16, 64)
				return u, 4 * (len(x) - 2), err
			}
			return 0, 0, fmt.Errorf("bad bits %q", x)
		}
		sg, _, e1 := bits(f[1])
		ex, _, e2 := bits(f[2])
		mt, _, e3 := bits(f[3])
		if e1 != nil || e2 != nil || e3 != nil {
			return 0, fmt.Errorf("bad fp literal %q", s)
		}
		return math.Float64frombits(sg<<63 | ex<<52 | mt), nil
	}
	return 0, fmt.Errorf("unrecognised fp value %q", s)
}

// ConcreteReplay re-executes the harness with all inputs concrete.
func ConcreteReplay(ld *Loaded, rp *ReplayFile) ReplayVerdict {
	h := Harness{Pkg: rp.Harness.Pkg, Func: rp.Harness.Func}
	cfg := rp.Config
	cfg.replayModel = rp.Model
	cfg.replayNative = rp.Native.Values
	// keep only the decisions that still exist when data is concrete
	if rp.Concrete == nil {
		return ReplayVerdict{false, "no decisions recorded"}
	}
	solver, err := NewSolver("z3", 10000)
	if err != nil {
		return ReplayVerdict{false, err.Error()}
	}
	defer solver.Close()
	res, _ := RunPath(ld, h, &cfg, solver, rp.Concrete, false)
	if res.EngineErr != "" {
		return ReplayVerdict{false, "engine error in concrete re-run: " + truncate(res.EngineErr, 400)}
	}
	for _, v := range res.Violations {
		if v.Key == rp.Violation.Key {
			return ReplayVerdict{true, "same violation reached with all inputs concrete: " + truncate(v.Detail, 200)}
		}
	}
	var got []string
	for _, v := range res.Violations {
		got = append(got, v.Key)
	}
	return ReplayVerdict{false, fmt.Sprintf("concrete re-run ended %q with violations %v", res.End, got)}
}

// fillReplayVectors derives the concrete decision vector and the native
// replay vector from a violation (called by RunCheck through BuildReplay's
// caller once the trace is known).
func (rp *ReplayFile) fill(trace []Decision, nondets []nondetVar) {
	rp.Decisions = trace
	for _, d := range trace {
		if strings.HasPrefix(d.Kind, "br@") || strings.HasPrefix(d.Kind, "symindex@") {
			continue
		}
		rp.Concrete = append(rp.Concrete, d.Chosen)
		if strings.HasPrefix(d.Kind, "choice:") {
			rp.Native.Choices = append(rp.Native.Choices, d.Chosen)
		}
	}
	if rp.Concrete == nil {
		rp.Concrete = []int{}
	}
	for _, n := range nondets {
		ms, ok := rp.Model[n.name]
		if !ok {
			continue
		}
		_, nat, err := parseModelValue(n.sort, n.goT, ms)
		if err != nil {
			continue
		}
		base := strings.Trim(n.name, "|")
		if i := strings.LastIndex(base, "#"); i >= 0 {
			base = base[:i]
		}
		rp.Native.Values[base] = append(rp.Native.Values[base], nat)
	}
}

func WriteReplay(verifDir string, rp *ReplayFile) string {
	dir := filepath.Join(verifDir, "replays")
	os.MkdirAll(dir, 0o755)
	name := fmt.Sprintf("%s-%s-%s.json", rp.Property, rp.Harness.Func, hashOf(rp.Violation.Key, fmt.Sprint(rp.Concrete), fmt.Sprint(rp.Model)))
	p := filepath.Join(dir, name)
	b, _ := json.MarshalIndent(rp, "", " ")
	os.WriteFile(p, b, 0o644)
	return p
}

// NativeReplay compiles the harness into the real package with go test
// -overlay and runs it on the replay vector.
func NativeReplay(verifDir, repoDir string, rp *ReplayFile, replayPath string) ReplayVerdict {
	tmp, err := os.MkdirTemp("", "verif-replay-")
	if err != nil {
		return ReplayVerdict{false, err.Error()}
	}
	defer os.RemoveAll(tmp)
	_, ovPaths, err := BuildOverlay(filepath.Join(verifDir, "harness"), repoDir)
	if err != nil {
		return ReplayVerdict{false, err.Error()}
	}
	rel := strings.TrimPrefix(rp.Harness.Pkg, RepoModule)
	rel = strings.TrimPrefix(rel, "/")
	pkgDir := filepath.Join(repoDir, rel)
	pkgName, err := packageName(pkgDir)
	if err != nil {
		return ReplayVerdict{false, err.Error()}
	}
	testSrc := fmt.Sprintf(`//go:build verif

package %s

import (
	"fmt"
	"testing"
	"%s"
)

func TestVerifReplay(t *testing.T) {
	defer func() {
		if r := recover(); r != nil {
			fmt.Printf("VERIF-PANIC %%v\n", r)
			t.Fatalf("panic: %%v", r)
		}
	}()
	verifrt.ResetReplay()
	%s()
	if len(verifrt.Failures) > 0 {
		t.Fatalf("assertions failed: %%v", verifrt.Failures)
	}
}
`, pkgName, VerifrtPath, rp.Harness.Func)
	testFile := filepath.Join(tmp, "zz_verif_replay_test.go")
	os.WriteFile(testFile, []byte(testSrc), 0o644)
	ov := map[string]string{}
	for dst, src := range ovPaths {
		ov[dst] = src
	}
	ov[filepath.Join(pkgDir, "zz_verif_replay_test.go")] = testFile
	ob, _ := json.Marshal(map[string]any{"Replace": ov})
	ovFile := filepath.Join(tmp, "overlay.json")
	os.WriteFile(ovFile, ob, 0o644)
	pkgArg := "./" + rel
	if rel == "" {
		pkgArg = "."
	}
	for _, f := range []string{"go.mod", "go.sum"} {
		if b, err := os.ReadFile(filepath.Join(repoDir, f)); err == nil {
			os.WriteFile(filepath.Join(tmp, f), b, 0o644)
		}
	}
	cmd := exec.Command("go", "test", "-tags", "verif", "-vet=off", "-count=1", "-modfile="+filepath.Join(tmp, "go.mod"), "-overlay", ovFile, "-run", "^TestVerifReplay$", "-timeout", "120s", pkgArg)
	cmd.Dir = repoDir
	cmd.Env = append(os.Environ(), "GOFLAGS=-mod=mod", "GOPROXY=off", "GOSUMDB=off", "GOTOOLCHAIN=local", "VERIF_REPLAY="+replayPath)
	done := make(chan struct{})
	var outb []byte
	go func() { outb, err = cmd.CombinedOutput(); close(done) }()
	select {
	case <-done:
	case <-time.After(5 * time.Minute):
		cmd.Process.Kill()
		<-done
		return ReplayVerdict{false, "native replay timed out"}
	}
	out := string(outb)
	v := rp.Violation
	verdict := ReplayVerdict{}
	switch v.Kind {
	case "assert":
		if strings.Contains(out, "VERIF-ASSERT-FAILED "+v.Key) {
			verdict = ReplayVerdict{true, "native run failed the same assertion"}
		}
	case "panic", "fault":
		if strings.Contains(out, "VERIF-PANIC") || strings.Contains(out, "panic:") {
			verdict = ReplayVerdict{true, "native run panicked: " + firstLineWith(out, "anic")}
		}
	case "recursion":
		if strings.Contains(out, "goroutine stack exceeds") || strings.Contains(out, "stack overflow") {
			verdict = ReplayVerdict{true, "native run overflowed the stack: " + firstLineWith(out, "stack")}
		} else if strings.Contains(out, "test timed out") {
			verdict = ReplayVerdict{true, "native run did not return"}
		}
	case "deadlock":
		if strings.Contains(out, "test timed out") || strings.Contains(out, "all goroutines are asleep") {
			verdict = ReplayVerdict{true, "native run did not return"}
		}
	}
	if !verdict.Reproduced {
		verdict.Detail = "native output: " + truncate(out, 1500)
	}
	rp.Stage2 = &verdict
	b, _ := json.MarshalIndent(rp, "", " ")
	os.WriteFile(replayPath, b, 0o644)
	return verdict
}

func firstLineWith(out, sub string) string {
	for _, l := range strings.Split(out, "\n") {
		if strings.Contains(l, sub) {
			return strings.TrimSpace(l)
		}
	}
	return ""
}

func packageName(dir string) (string, error) {
	ents, err := os.ReadDir(dir)
	if err != nil {
		return "", err
	}
	for _, e := range ents {
		if strings.HasSuffix(e.Name(), ".go") && !strings.HasSuffix(e.Name(), "_test.go") {
			b, err := os.ReadFile(filepath.Join(dir, e.Name()))
			if err != nil {
				continue
			}
			for _, l := range strings.Split(string(b), "\n") {
				l = strings.TrimSpace(l)
				if strings.HasPrefix(l, "package ") {
					return strings.Fields(l)[1], nil
				}
			}
		}
	}
	return "", fmt.Errorf("no package clause found in %s", dir)
}

// NativePass runs the harness natively on a replay vector taken from a passing symbolic path and
// reports whether it passes there too.
func NativePass(verifDir, repoDir string, rp *ReplayFile, replayPath string) ReplayVerdict {
	rp.Violation.Kind = "none"
	v := NativeReplay(verifDir, repoDir, rp, replayPath)
	// NativeReplay reports "Reproduced" for violations; for a passing sample look at the raw output
	if strings.Contains(v.Detail, "VERIF-ASSERT-FAILED") || strings.Contains(v.Detail, "VERIF-PANIC") || strings.Contains(v.Detail, "FAIL") {
		return ReplayVerdict{false, v.Detail}
	}
	if strings.Contains(v.Detail, "ok  \t") || strings.Contains(v.Detail, "PASS") || strings.Contains(v.Detail, "ok ") {
		return ReplayVerdict{true, "native run passed"}
	}
	return ReplayVerdict{false, v.Detail}
}
