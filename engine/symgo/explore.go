package symgo

// Path exploration: depth-first by re-execution with a decision prefix.

import (
	"fmt"
	"go/token"
	"os"
	"sort"
	"strings"
	"sync"
	"sync/atomic"
	"time"

	"golang.org/x/tools/go/ssa"
)

// Decision is one resolved choice on a path.
type Decision struct {
	Kind   string `json:"kind"`
	N      int    `json:"n"`
	Chosen int    `json:"chosen"`
}

// pathCtl drives one path: a prefix of forced decisions, then first-feasible.
type pathCtl struct {
	prefix  []int
	trace   []Decision
	pending [][]int // sibling prefixes discovered on this path
	wg      sync.WaitGroup
	replay  bool // concrete replay: prefix must cover every decision
}

// choose resolves a decision with n alternatives. feasible (optional) filters
// alternatives beyond the prefix; it is not consulted while replaying the
// prefix (those alternatives were found feasible when they were pushed).
func (pc *pathCtl) choose(it *interpreter, kind string, n int, feasible func(i int) bool) int {
	pos := len(pc.trace)
	if pos < len(pc.prefix) {
		c := pc.prefix[pos]
		if c >= n {
			abortf("decision prefix out of range at %d (%s): %d >= %d (non-deterministic re-execution?)", pos, kind, c, n)
		}
		pc.trace = append(pc.trace, Decision{kind, n, c})
		return c
	}
	if pc.replay {
		abortf("replay vector too short at decision %d (%s)", pos, kind)
	}
	first := -1
	for i := 0; i < n; i++ {
		if feasible != nil && !feasible(i) {
			continue
		}
		if first < 0 {
			first = i
			continue
		}
		sib := make([]int, pos+1)
		for j, d := range pc.trace {
			sib[j] = d.Chosen
		}
		sib[pos] = i
		pc.pending = append(pc.pending, sib)
	}
	if first < 0 {
		// no feasible alternative: the path condition is unsatisfiable
		it.endPath("infeasible")
		panic(abortPath{})
	}
	pc.trace = append(pc.trace, Decision{kind, n, first})
	return first
}

// Violation is a property violation found on a path.
type Violation struct {
	Kind      string            `json:"kind"` // assert | fault | panic | deadlock
	Key       string            `json:"key"`  // stable identification (label or fault site)
	Detail    string            `json:"detail"`
	Pos       string            `json:"pos"`
	Stack     []string          `json:"stack,omitempty"`
	Model     map[string]string `json:"model,omitempty"`
	Decisions []int             `json:"decisions"`
	Harness   string            `json:"harness"`
	Events    []string          `json:"events,omitempty"`
	Trace     []Decision        `json:"-"`
	nd        []nondetVar
}

// PathResult is what one path produced.
type PathResult struct {
	End        string
	Violations []Violation
	Deadlock   []string
	Bounds     []string
	EngineErr  string
	Reached    []string
	Decisions  []Decision
	Instrs     int64
	Tainted    bool
	funcs      map[*ssa.Function]int
	panicStack []string
	Events     []string
	SampleModel map[string]string
	sampleNd   []nondetVar
	PCSummary  int
	strBounded bool
	Nondets    []string
}

func (r *PathResult) noteFunc(fn *ssa.Function) {
	if r.funcs == nil {
		r.funcs = map[*ssa.Function]int{}
	}
	r.funcs[fn]++
}

func (it *interpreter) recordBound(msg string) {
	it.res.Bounds = append(it.res.Bounds, msg)
}

func (it *interpreter) engineError(msg string) {
	if it.res.EngineErr == "" {
		it.res.EngineErr = msg
	}
	it.endPath("engine-error")
}

func (it *interpreter) decisionsSoFar() []int {
	d := make([]int, len(it.pc.trace))
	for i, x := range it.pc.trace {
		d[i] = x.Chosen
	}
	return d
}

// violation records a violation on this path.
func (it *interpreter) violation(kind, key, detail string, fr *frame) {
	v := Violation{Kind: kind, Key: key, Detail: detail, Decisions: it.decisionsSoFar(), Events: append([]string(nil), it.events...),
		Trace: append([]Decision(nil), it.pc.trace...), nd: append([]nondetVar(nil), it.nondets...)}
	if fr != nil {
		v.Pos = fr.pos()
		v.Stack = fr.stack()
	}
	// a model of the path condition (the caller pushes the negated property
	// before calling when the violation is conditional)
	v.Model = it.model()
	it.res.Violations = append(it.res.Violations, v)
}

func (it *interpreter) model() map[string]string {
	if len(it.nondets) == 0 {
		return nil
	}
	if !it.satKnown && it.solver.Check() != "sat" {
		return nil
	}
	names := make([]string, len(it.nondets))
	for i, n := range it.nondets {
		names[i] = n.name
	}
	return it.solver.GetValues(names)
}

func (it *interpreter) reportCrash(g *goroutine, msg string) {
	key := msg
	pos := ""
	if it.res.panicStack != nil {
		pos = it.res.panicStack[0]
		// key by the innermost repository frame
		for _, s := range it.res.panicStack {
			if !strings.Contains(s, "verifrt") && !strings.Contains(s, "zz_verif") {
				pos = s
				break
			}
		}
	}
	v := Violation{Kind: "panic", Key: "panic@" + posOnly(pos), Detail: key, Pos: pos, Stack: it.res.panicStack,
		Decisions: it.decisionsSoFar(), Events: append([]string(nil), it.events...), Model: it.model(),
		Trace: append([]Decision(nil), it.pc.trace...), nd: append([]nondetVar(nil), it.nondets...)}
	it.res.Violations = append(it.res.Violations, v)
	it.endPath("crash")
}

func posOnly(s string) string {
	if i := strings.LastIndex(s, " @ "); i >= 0 {
		fn := s[:i]
		p := s[i+3:]
		// drop the line number from the key: keep function + file
		if j := strings.LastIndex(p, ":"); j >= 0 {
			p = p[:j]
		}
		return fn + "(" + p + ")"
	}
	return s
}

// branch decides a symbolic condition: forks when both sides are feasible.
func (it *interpreter) branch(fr *frame, c *Sym) bool {
	pc := it.pc
	pos := len(pc.trace)
	if pos < len(pc.prefix) {
		k := pc.choose(it, "br@"+fr.pos(), 2, nil)
		if k == 0 {
			it.solver.Assert(c.e)
			return true
		}
		it.solver.Assert(app("not", c.e))
		return false
	}
	rt := it.solver.CheckWith(c.e)
	var rf string
	if rt == "unsat" {
		rf = "sat" // the path condition is satisfiable, so the other side is
	} else {
		rf = it.solver.CheckWith(app("not", c.e))
	}
	if rt == "unknown" || rf == "unknown" {
		it.tainted = true
	}
	k := pc.choose(it, "br@"+fr.pos(), 2, func(i int) bool {
		if i == 0 {
			return rt != "unsat"
		}
		return rf != "unsat"
	})
	if k == 0 {
		it.solver.Assert(c.e)
		return true
	}
	it.solver.Assert(app("not", c.e))
	return false
}

// faultIf reports a runtime fault when cond is satisfiable on this path, then
// continues under its negation.
func (it *interpreter) faultIf(cond *Sym, msg string) {
	s := it.solver
	s.Push()
	s.Assert(cond.e)
	r := s.Check()
	if r == "sat" {
		fr := it.cur.top
		it.satKnown = true
		it.violation("fault", "fault:"+msg+"@"+posOnlyFrame(fr), msg, fr)
		it.satKnown = false
	} else if r == "unknown" {
		it.tainted = true
		it.res.Bounds = append(it.res.Bounds, "solver unknown on fault condition: "+msg)
	}
	s.Pop()
	s.Assert(app("not", cond.e))
}

func posOnlyFrame(fr *frame) string {
	if fr == nil {
		return "?"
	}
	return fr.fn.String()
}

// assertProp implements verifrt.Assert.
func (it *interpreter) assertProp(fr *frame, cond value, label string) {
	switch c := cond.(type) {
	case bool:
		if !c {
			if it.tainted && it.solver.Check() != "sat" {
				// the path was entered on an "unknown" feasibility verdict: not a finding
				it.res.Bounds = append(it.res.Bounds, "assertion "+label+" fails on a path whose feasibility the solver could not decide")
			} else {
				it.satKnown = it.tainted
				it.violation("assert", label, "assertion failed (concrete)", fr)
				it.satKnown = false
			}
		}
		it.res.PCSummary++
	case *Sym:
		s := it.solver
		s.Push()
		s.Assert(app("not", c.e))
		r := s.Check()
		if r == "sat" {
			it.satKnown = true
			it.violation("assert", label, "assertion can fail: "+truncate(c.e, 300), fr)
			it.satKnown = false
		} else if r == "unknown" {
			it.tainted = true
			it.res.Bounds = append(it.res.Bounds, "solver unknown on assertion "+label)
		}
		s.Pop()
		s.Assert(c.e)
		it.res.PCSummary++
	}
}

func truncate(s string, n int) string {
	if len(s) > n {
		return s[:n] + "..."
	}
	return s
}

// assume implements verifrt.Assume.
func (it *interpreter) assume(fr *frame, cond value) {
	switch c := cond.(type) {
	case bool:
		if !c {
			it.endPath("assume-false")
			panic(abortPath{})
		}
	case *Sym:
		it.solver.Assert(c.e)
		if it.solver.Check() == "unsat" {
			it.endPath("assume-false")
			panic(abortPath{})
		}
	}
}

func (it *interpreter) newNondet(name string, sort Sort, goT string) value {
	n := it.counts[name]
	it.counts[name]++
	full := name
	if n > 0 {
		full = fmt.Sprintf("%s#%d", name, n)
	}
	q := "|" + strings.ReplaceAll(full, "|", "_") + "|"
	if it.cfg.replayModel != nil {
		// concrete replay: substitute the model value
		it.nondets = append(it.nondets, nondetVar{q, sort, goT})
		ms, ok := it.cfg.replayModel[q]
		if !ok {
			ms = map[Sort]string{SBool: "false", SBV8: "#x00", SBV16: "#x0000", SBV32: "#x00000000", SBV64: "#x0000000000000000", SFP64: "(_ +zero 11 53)", SStr: "\"\""}[sort]
		}
		v, _, err := parseModelValue(sort, goT, ms)
		if err != nil {
			abortf("replay: cannot parse model value %s = %s: %v", q, ms, err)
		}
		return v
	}
	it.solver.Declare(q, sort)
	it.nondets = append(it.nondets, nondetVar{q, sort, goT})
	return &Sym{sort, q}
}

// ---------------------------------------------------------------------------

// Harness identifies an entry point.
type Harness struct {
	Pkg  string // import path
	Func string
}

// Report aggregates an exploration.
type Report struct {
	Harness     string
	Paths       int
	PathsByEnd  map[string]int
	Decisions   int
	Instrs      int64
	Violations  []Violation
	Bounds      map[string]int
	EngineErrs  map[string]int
	Reached     map[string]int
	Funcs       map[string]int
	Solver      SolverStats
	Wall        time.Duration
	Incomplete  string
	Tainted     int
	Samples     []PathSample
	MaxDecision int
	Scripts     []string // sample of solver scripts for cross-checking
	Assertions  int
	Fallbacks   int
	PassSamples []PassSample
}

// PassSample is a completed path without violation together with a model of its path condition.
type PassSample struct {
	Trace []Decision
	Model map[string]string
	nd    []nondetVar
}

type PathSample struct {
	Decisions []Decision `json:"decisions"`
	End       string     `json:"end"`
	Reached   []string   `json:"reached,omitempty"`
	Events    []string   `json:"events,omitempty"`
	Nondets   []string   `json:"nondets,omitempty"`
}

type ExploreOpts struct {
	Workers   int
	MaxPaths  int
	TimeLimit time.Duration
	Solver    string
	TimeoutMS int
	FallbackMS int
	StopFirst bool // stop at first violation per key
	KeepScripts int
	SampleModels int
}

// RunPath executes one path with the given decision prefix.
func RunPath(ld *Loaded, h Harness, cfg *Config, solver *Solver, prefix []int, replay bool) (*PathResult, [][]int) {
	return runPath(ld, h, cfg, solver, prefix, replay, false)
}

func runPath(ld *Loaded, h Harness, cfg *Config, solver *Solver, prefix []int, replay bool, wantModel bool) (*PathResult, [][]int) {
	pc := &pathCtl{prefix: prefix, replay: replay}
	solver.Reset()
	it := newInterpreter(ld, cfg, solver, pc)
	res := &PathResult{}
	it.res = res
	main := &goroutine{id: 0, name: "main", wake: make(chan struct{}, 1), started: true, spawnPos: "harness"}
	it.gs = append(it.gs, main)
	it.cur = main
	if it.hb != nil {
		it.hb.fork(nil, main)
	}
	fn := ld.harnessFunc(h)
	if fn == nil {
		res.EngineErr = "harness not found: " + h.Pkg + "." + h.Func
		return res, nil
	}
	func() {
		defer func() {
			r := recover()
			main.done = true
			switch x := r.(type) {
			case nil:
				it.endPath("done")
			case abortPath:
			case engineAbort:
				it.engineError(x.msg)
			case targetPanic:
				it.reportCrash(main, "panic: "+panicString(it, x.v))
			case targetFault:
				it.reportCrash(main, "panic: "+string(x))
			default:
				it.engineError(fmt.Sprintf("unexpected Go panic: %v", r))
			}
			it.aborting = true
		}()
		// package initialisers of the packages under test
		for _, p := range ld.InitPkgs {
			if init := p.Func("init"); init != nil {
				it.runInit(p)
			}
		}
		res.noteFunc(fn)
		call(it, nil, token.NoPos, fn, nil)
	}()
	if wantModel && res.End == "done" && len(res.Violations) == 0 && cfg.replayModel == nil {
		if m := it.model(); m != nil || len(it.nondets) == 0 {
			res.SampleModel = m
			if res.SampleModel == nil {
				res.SampleModel = map[string]string{}
			}
			res.sampleNd = append([]nondetVar(nil), it.nondets...)
		}
	}
	// unwind every other goroutine
	it.cur = main
	it.wakeNextForAbort()
	pc.wg.Wait()
	res.Decisions = pc.trace
	res.Instrs = it.instrs
	res.Tainted = it.tainted
	res.Events = it.events
	for k := range it.covered {
		res.Reached = append(res.Reached, k)
	}
	sort.Strings(res.Reached)
	for _, n := range it.nondets {
		res.Nondets = append(res.Nondets, n.name+":"+n.goT)
	}
	for i := range res.Violations {
		res.Violations[i].Harness = h.Pkg + "." + h.Func
	}
	return res, pc.pending
}

// Explore runs the whole decision tree of a harness.
func Explore(ld *Loaded, h Harness, cfg *Config, opts ExploreOpts) *Report {
	t0 := time.Now()
	rep := &Report{Harness: h.Pkg + "." + h.Func, PathsByEnd: map[string]int{}, Bounds: map[string]int{},
		EngineErrs: map[string]int{}, Reached: map[string]int{}, Funcs: map[string]int{}}
	if opts.Workers <= 0 {
		opts.Workers = 8
	}
	if opts.TimeoutMS <= 0 {
		opts.TimeoutMS = 5000
	}
	if opts.FallbackMS == 0 {
		opts.FallbackMS = 120000
	}
	var mu sync.Mutex
	cond := sync.NewCond(&mu)
	stack := [][]int{{}}
	active := 0
	var stop atomic.Bool
	seenKeys := map[string]bool{}
	var wg sync.WaitGroup
	for w := 0; w < opts.Workers; w++ {
		wg.Add(1)
		go func() {
			defer wg.Done()
			solver, err := NewSolver(opts.Solver, opts.TimeoutMS)
			if err != nil {
				mu.Lock()
				rep.EngineErrs["cannot start solver: "+err.Error()]++
				mu.Unlock()
				return
			}
			solver.FallbackMS = opts.FallbackMS
			defer func() {
				mu.Lock()
				s := solver.Stats
				rep.Fallbacks += solver.Fallbacks
				rep.Solver.Queries += s.Queries
				rep.Solver.Sat += s.Sat
				rep.Solver.Unsat += s.Unsat
				rep.Solver.Unknown += s.Unknown
				rep.Solver.Errors += s.Errors
				rep.Solver.Time += s.Time
				mu.Unlock()
				solver.Close()
			}()
			for {
				mu.Lock()
				for len(stack) == 0 && active > 0 && !stop.Load() {
					cond.Wait()
				}
				if stop.Load() || (len(stack) == 0 && active == 0) {
					mu.Unlock()
					cond.Broadcast()
					return
				}
				prefix := stack[len(stack)-1]
				stack = stack[:len(stack)-1]
				active++
				mu.Unlock()

				res, pending := runPath(ld, h, cfg, solver, prefix, false, opts.SampleModels > 0)

				mu.Lock()
				active--
				rep.Paths++
				rep.PathsByEnd[res.End]++
				rep.Decisions += len(res.Decisions)
				if len(res.Decisions) > rep.MaxDecision {
					rep.MaxDecision = len(res.Decisions)
				}
				rep.Instrs += res.Instrs
				rep.Assertions += res.PCSummary
				if res.Tainted {
					rep.Tainted++
				}
				for _, b := range res.Bounds {
					rep.Bounds[b]++
				}
				if res.EngineErr != "" {
					rep.EngineErrs[res.EngineErr]++
				}
				for _, r := range res.Reached {
					rep.Reached[r]++
				}
				for fn, n := range res.funcs {
					rep.Funcs[fn.String()] += n
				}
				for _, v := range res.Violations {
					if !seenKeys[v.Key] {
						seenKeys[v.Key] = true
						rep.Violations = append(rep.Violations, v)
					}
				}
				if len(rep.Samples) < 6 && (res.End == "done" || len(res.Violations) > 0) {
					ev := res.Events
					if len(ev) > 12 {
						ev = ev[:12]
					}
					rep.Samples = append(rep.Samples, PathSample{Decisions: res.Decisions, End: res.End, Reached: res.Reached, Events: ev, Nondets: res.Nondets})
				}
				if res.SampleModel != nil && len(rep.PassSamples) < opts.SampleModels {
					rep.PassSamples = append(rep.PassSamples, PassSample{Trace: res.Decisions, Model: res.SampleModel, nd: res.sampleNd})
				}
				if len(rep.Scripts) < opts.KeepScripts && solver.Stats.Queries > 0 {
					rep.Scripts = append(rep.Scripts, solver.Script())
				}
				stack = append(stack, pending...)
				if os.Getenv("SYMGO_DEBUG") != "" && rep.Paths%200 == 0 {
					fmt.Fprintf(os.Stderr, "[%s] paths=%d pending=%d ends=%v instr=%d t=%.0fs\n", h.Func, rep.Paths, len(stack), rep.PathsByEnd, rep.Instrs, time.Since(t0).Seconds())
				}
				if opts.MaxPaths > 0 && rep.Paths >= opts.MaxPaths && (len(stack) > 0 || active > 0) {
					rep.Incomplete = fmt.Sprintf("path budget %d exhausted with %d prefixes pending", opts.MaxPaths, len(stack))
					stop.Store(true)
				}
				if opts.TimeLimit > 0 && time.Since(t0) > opts.TimeLimit && (len(stack) > 0 || active > 0) {
					rep.Incomplete = fmt.Sprintf("time budget %s exhausted with %d prefixes pending", opts.TimeLimit, len(stack))
					stop.Store(true)
				}
				mu.Unlock()
				cond.Broadcast()
			}
		}()
	}
	wg.Wait()
	rep.Wall = time.Since(t0)
	if os.Getenv("SYMGO_DEBUG") != "" {
		fmt.Fprintf(os.Stderr, "explore %s: %d paths, %v\n", rep.Harness, rep.Paths, rep.Wall)
	}
	return rep
}
