package symgo

// Check driver: runs the harnesses of one property, applies the known-findings
// protocol, writes evidence and replay files.

import (
	"crypto/sha1"
	"encoding/json"
	"fmt"
	"os"
	"path/filepath"
	"regexp"
	"sort"
	"strings"
	"sync"
	"time"
)

type HarnessSpec struct {
	Pkg        string                     `json:"pkg"`
	Func       string                     `json:"func"`
	Tiers      map[string]json.RawMessage `json:"tiers"` // per-tier Config overrides; a missing tier means "not run in that tier"
	Reach      []string                   `json:"reach"` // labels that must be reached on some path
	MinAsserts int                        `json:"min_asserts"`
	Native     bool                       `json:"native_replay"` // counterexamples are re-run natively (sequential harnesses)
	Note       string                     `json:"note"`
	NoSample   bool                       `json:"no_sample"` // do not use for the quick-tier differential sample (expensive native build)
}

type CheckSpec struct {
	Property    string          `json:"property"`
	Patterns    []string        `json:"patterns"`
	Init        []string        `json:"init"`
	Defaults    json.RawMessage `json:"defaults"`
	Harnesses   []HarnessSpec   `json:"harnesses"`
	Assumptions []string        `json:"assumptions"`
	Stubs       []string        `json:"stubs"`
	Outside     []string        `json:"outside"`
}

type TierConfig struct {
	Config
	Solver    string         `json:"Solver"`
	TimeoutMS int            `json:"TimeoutMS"`
	FallbackMS int           `json:"FallbackMS"`
	MaxPaths  int            `json:"MaxPaths"`
	TimeLimit int            `json:"TimeLimitS"`
	Skip      bool           `json:"Skip"`
}

type KnownFinding struct {
	Property string `json:"property"`
	Key      string `json:"key"`     // exact violation key or regexp when KeyRe
	KeyRe    bool   `json:"key_re"`
	Harness  string `json:"harness"` // optional: restrict to one harness func
	What     string `json:"what"`
	Status   string `json:"status"` // "open" or "fixed: <commit>"
}

func LoadKnown(path string) ([]KnownFinding, error) {
	b, err := os.ReadFile(path)
	if err != nil {
		if os.IsNotExist(err) {
			return nil, nil
		}
		return nil, err
	}
	var k struct {
		Findings []KnownFinding `json:"findings"`
	}
	if err := json.Unmarshal(b, &k); err != nil {
		return nil, err
	}
	return k.Findings, nil
}

func matchKnown(known []KnownFinding, prop string, v Violation) *KnownFinding {
	for i := range known {
		k := &known[i]
		if k.Property != prop || strings.HasPrefix(k.Status, "fixed") {
			continue
		}
		if k.Harness != "" && !strings.HasSuffix(v.Harness, "."+k.Harness) {
			continue
		}
		if k.KeyRe {
			if ok, _ := regexp.MatchString(k.Key, v.Key); ok {
				return k
			}
		} else if k.Key == v.Key {
			return k
		}
	}
	return nil
}

type CheckOutcome struct {
	Exit       int
	Lines      []string
	Violations []Violation
}

var DefaultConfig = Config{Preemptions: 0, Unwind: 256, MaxDepth: 64, MaxInstr: 20_000_000, MapOrders: "first"}

// RunCheck runs one property check. verifDir is /verif, repoDir is /repo.
func RunCheck(verifDir, repoDir, prop, tier string, seed int64, only string, verbose bool) int {
	t0 := time.Now()
	out := func(format string, args ...any) { fmt.Printf(format+"\n", args...) }
	specPath := filepath.Join(verifDir, "checks", prop+".json")
	b, err := os.ReadFile(specPath)
	if err != nil {
		out("ERROR: %v", err)
		return 2
	}
	var spec CheckSpec
	if err := json.Unmarshal(b, &spec); err != nil {
		out("ERROR: %s: %v", specPath, err)
		return 2
	}
	known, err := LoadKnown(filepath.Join(verifDir, "known_findings.json"))
	if err != nil {
		out("ERROR: known_findings.json: %v", err)
		return 2
	}
	overlay, ovPaths, err := BuildOverlay(filepath.Join(verifDir, "harness"), repoDir)
	if err != nil {
		out("ERROR: overlay: %v", err)
		return 2
	}
	_ = ovPaths
	tl := time.Now()
	ld, err := Load(repoDir, spec.Patterns, overlay, spec.Init)
	if err != nil {
		out("ERROR: cannot load/typecheck /repo with the harness overlay: %v", err)
		return 2
	}
	loadS := time.Since(tl).Seconds()

	workers := 14
	if w := os.Getenv("VERIF_WORKERS"); w != "" {
		fmt.Sscan(w, &workers)
	}
	exit := 0
	worse := func(c int) {
		// 1 (violation) dominates; then 4 (inconclusive), then 3 (vacuous)
		rank := map[int]int{0: 0, 3: 1, 4: 2, 2: 3, 1: 4}
		if rank[c] > rank[exit] {
			exit = c
		}
	}
	type hres struct {
		Harness    string         `json:"harness"`
		Paths      int            `json:"paths"`
		PathsByEnd map[string]int `json:"paths_by_end"`
		Decisions  int            `json:"decision_points"`
		Instrs     int64          `json:"ssa_instructions"`
		Assertions int            `json:"assertions_discharged"`
		Queries    int            `json:"solver_queries"`
		Sat        int            `json:"sat"`
		Unsat      int            `json:"unsat"`
		Unknown    int            `json:"unknown"`
		SolverS    float64        `json:"solver_s"`
		WallS      float64        `json:"wall_s"`
		Bounds     map[string]any `json:"bounds"`
		Reached    []string       `json:"cover_labels"`
		Known      []string       `json:"known_findings_hit,omitempty"`
		Violations []string       `json:"violations,omitempty"`
		Note       string         `json:"note,omitempty"`
	}
	var results []hres
	funcs := map[string]int{}
	var samples []any
	totalStates, totalInstr := 0, int64(0)
	totalQ, totalSat, totalUnsat, totalUnknown := 0, 0, 0, 0
	solverS := 0.0
	nViol := 0
	knownHit := map[string]bool{}
	nHarness := 0
	diffChecked := 0

	type job struct {
		hs   HarnessSpec
		cfg  Config
		opts ExploreOpts
		rep  *Report
	}
	var jobs []*job
	redirectSet := map[string]bool{}
	nativeSampled := 0
	for _, hs := range spec.Harnesses {
		if only != "" && !strings.Contains(hs.Func, only) {
			continue
		}
		raw, ok := hs.Tiers[tier]
		if !ok {
			continue
		}
		tc := TierConfig{Config: DefaultConfig}
		if len(spec.Defaults) > 0 {
			if err := json.Unmarshal(spec.Defaults, &tc); err != nil {
				out("ERROR: defaults: %v", err)
				return 2
			}
		}
		if err := json.Unmarshal(raw, &tc); err != nil {
			out("ERROR: %s tier %s: %v", hs.Func, tier, err)
			return 2
		}
		if tc.Skip {
			continue
		}
		opts := ExploreOpts{Workers: workers, MaxPaths: tc.MaxPaths, TimeLimit: time.Duration(tc.TimeLimit) * time.Second, Solver: tc.Solver, TimeoutMS: tc.TimeoutMS, FallbackMS: tc.FallbackMS, KeepScripts: 3}
		if opts.Solver == "" {
			opts.Solver = "z3"
		}
		if hs.Native && (tier == "thorough" || os.Getenv("VERIF_DIFF") != "") {
			opts.SampleModels = 2
		} else if hs.Native && !hs.NoSample && nativeSampled < 2 {
			nativeSampled++
			opts.SampleModels = 1
		}
		jobs = append(jobs, &job{hs: hs, cfg: tc.Config, opts: opts})
		for from, to := range tc.Config.Redirects {
			if to == "" {
				to = "(no-op)"
			}
			redirectSet["callee "+from+" replaced by "+to] = true
		}
	}
	nHarness = len(jobs)
	{
		par := 6
		if len(jobs) < par {
			par = len(jobs)
		}
		if par > 1 {
			for _, j := range jobs {
				j.opts.Workers = (workers + par - 1) / par
				if j.opts.Workers < 3 {
					j.opts.Workers = 3
				}
			}
		}
		sem := make(chan struct{}, par)
		var wgj sync.WaitGroup
		for _, j := range jobs {
			wgj.Add(1)
			sem <- struct{}{}
			go func(j *job) {
				defer wgj.Done()
				defer func() { <-sem }()
				j.rep = Explore(ld, Harness{Pkg: j.hs.Pkg, Func: j.hs.Func}, &j.cfg, j.opts)
			}(j)
		}
		wgj.Wait()
	}
	for _, j := range jobs {
		hs := j.hs
		cfg := j.cfg
		rep := j.rep
		r := hres{Harness: hs.Func, Paths: rep.Paths, PathsByEnd: rep.PathsByEnd, Decisions: rep.Decisions, Instrs: rep.Instrs,
			Assertions: rep.Assertions, Queries: rep.Solver.Queries, Sat: rep.Solver.Sat, Unsat: rep.Solver.Unsat, Unknown: rep.Solver.Unknown,
			SolverS: rep.Solver.Time.Seconds(), WallS: rep.Wall.Seconds(), Note: hs.Note,
			Bounds: map[string]any{"preemptions": cfg.Preemptions, "unwind": cfg.Unwind, "max_depth": cfg.MaxDepth, "map_orders": cfg.MapOrders,
				"adversarial_time": cfg.AdversarialTime, "stalls": cfg.Stalls, "params": cfg.Params, "hb_monitor": cfg.HB}}
		for k := range rep.Reached {
			r.Reached = append(r.Reached, k)
		}
		sort.Strings(r.Reached)
		for f, n := range rep.Funcs {
			funcs[f] += n
		}
		totalStates += rep.Decisions + rep.Paths
		totalInstr += rep.Instrs
		totalQ += rep.Solver.Queries
		totalSat += rep.Solver.Sat
		totalUnsat += rep.Solver.Unsat
		totalUnknown += rep.Solver.Unknown
		solverS += rep.Solver.Time.Seconds()
		for _, s := range rep.Samples {
			if len(samples) < 8 {
				samples = append(samples, map[string]any{"harness": hs.Func, "decisions": s.Decisions, "end": s.End, "reached": s.Reached, "events": s.Events, "symbolic_inputs": s.Nondets})
			}
		}
		status := "ok"
		// engine problems / bounds => inconclusive
		if len(rep.EngineErrs) > 0 {
			status = "INCONCLUSIVE(engine)"
			worse(4)
			for e, n := range rep.EngineErrs {
				out("INCONCLUSIVE %s: engine error on %d path(s): %s", hs.Func, n, truncate(e, 1500))
			}
		}
		if len(rep.Bounds) > 0 {
			status = "INCONCLUSIVE(bound)"
			worse(4)
			for e, n := range rep.Bounds {
				out("INCONCLUSIVE %s: bound hit on %d path(s): %s", hs.Func, n, e)
			}
		}
		if rep.Incomplete != "" {
			status = "INCONCLUSIVE(budget)"
			worse(4)
			out("INCONCLUSIVE %s: %s", hs.Func, rep.Incomplete)
		}
		if rep.Solver.Unknown > 0 || rep.Solver.Errors > 0 || rep.Tainted > 0 {
			status = "INCONCLUSIVE(solver)"
			worse(4)
			out("INCONCLUSIVE %s: solver answered unknown/error on %d queries", hs.Func, rep.Solver.Unknown+rep.Solver.Errors)
		}
		// vacuity
		for _, lbl := range hs.Reach {
			if rep.Reached[lbl] == 0 {
				status = "VACUOUS"
				worse(3)
				out("VACUOUS %s: reachability witness %q was never reached", hs.Func, lbl)
			}
		}
		if rep.Assertions < hs.MinAsserts || (hs.MinAsserts == 0 && rep.Assertions == 0 && len(rep.Violations) == 0 && !cfg.HB && !cfg.DeadlockIsFinding) {
			status = "VACUOUS"
			worse(3)
			out("VACUOUS %s: %d assertions evaluated", hs.Func, rep.Assertions)
		}
		// violations
		for _, v := range rep.Violations {
			if k := matchKnown(known, prop, v); k != nil {
				if !knownHit[k.Key+"|"+k.Harness] {
					knownHit[k.Key+"|"+k.Harness] = true
					out("KNOWN-FINDING: property=%s %s [key=%s harness=%s]", prop, k.What, v.Key, hs.Func)
				}
				r.Known = append(r.Known, v.Key)
				continue
			}
			// confirm by concrete re-execution of the SSA with the model
			rp := BuildReplay(prop, hs, &cfg, v)
			rp.fill(v.Trace, v.nd)
			conf := ConcreteReplay(ld, rp)
			rp.Stage1 = conf
			path := WriteReplay(verifDir, rp)
			if !conf.Reproduced {
				worse(4)
				out("INCONCLUSIVE %s: counterexample for %q did not reproduce in concrete re-execution (%s); replay=%s", hs.Func, v.Key, conf.Detail, path)
				continue
			}
			if hs.Native {
				nat := NativeReplay(verifDir, repoDir, rp, path)
				diffChecked++
				if !nat.Reproduced {
					worse(4)
					out("INCONCLUSIVE %s: counterexample for %q reproduced on the SSA but not natively (%s); replay=%s", hs.Func, v.Key, truncate(nat.Detail, 600), path)
					continue
				}
			}
			nViol++
			worse(1)
			r.Violations = append(r.Violations, v.Key)
			out("VIOLATION property=%s replay=%s", prop, path)
			out("  harness=%s kind=%s key=%s", hs.Func, v.Kind, v.Key)
			out("  detail: %s", truncate(v.Detail, 400))
			if v.Pos != "" {
				out("  at: %s", v.Pos)
			}
			if len(v.Model) > 0 {
				mb, _ := json.Marshal(v.Model)
				out("  model: %s", truncate(string(mb), 600))
			}
		}
		// differential validation of the translator: a passing symbolic path, instantiated with a model
		// of its path condition, must also pass when the same harness runs natively on the real build.
		for _, ps := range rep.PassSamples {
			rp := BuildReplay(prop, hs, &cfg, Violation{Kind: "none", Key: "(passing path)", Model: ps.Model})
			rp.fill(ps.Trace, ps.nd)
			path := WriteReplay(verifDir, rp)
			nat := NativePass(verifDir, repoDir, rp, path)
			if nat.Reproduced {
				diffChecked++
			} else {
				worse(4)
				out("INCONCLUSIVE %s: a path that passes symbolically does not pass natively (%s); replay=%s", hs.Func, truncate(nat.Detail, 500), path)
			}
			os.Remove(path)
		}
		results = append(results, r)
		out("%-60s %-22s paths=%d dec=%d instr=%d queries=%d (sat %d unsat %d unk %d) asserts=%d solver=%.1fs wall=%.1fs",
			hs.Func, status, rep.Paths, rep.Decisions, rep.Instrs, rep.Solver.Queries, rep.Solver.Sat, rep.Solver.Unsat, rep.Solver.Unknown, rep.Assertions, rep.Solver.Time.Seconds(), rep.Wall.Seconds())
		if verbose {
			for k, n := range rep.PathsByEnd {
				out("    end=%s: %d", k, n)
			}
		}
	}
	if nHarness == 0 {
		out("ERROR: no harness selected for %s tier %s", prop, tier)
		return 2
	}
	redirectList := keys(redirectSet)
	// functions encoded (repository + dgraph functions executed symbolically)
	var fl []string
	for f, n := range funcs {
		if strings.Contains(f, "verifrt") {
			continue
		}
		fl = append(fl, fmt.Sprintf("%s x%d", f, n))
	}
	sort.Strings(fl)
	if totalStates == 0 {
		totalStates = 1
	}
	if totalInstr == 0 {
		totalInstr = 1
	}
	ev := map[string]any{
		"property_id": prop,
		"tier":        tier,
		"seed":        seed,
		"level":       "model_checking",
		"coverage": map[string]any{
			"states":                        totalStates,
			"transitions":                   totalInstr,
			"traces_validated_against_impl": diffChecked,
			"samples":                       samples,
			"explanation":                   "bounded symbolic execution of the repository's SSA; states = decision points + paths, transitions = SSA instructions executed symbolically",
			"exhaustive":                    exit == 0 || exit == 1,
			"functions_encoded":             fl,
			"harnesses":                     results,
			"queries":                       map[string]any{"total": totalQ, "sat": totalSat, "unsat": totalUnsat, "unknown": totalUnknown},
			"solver_s":                      solverS,
			"solver":                        "z3 4.8.12 (z3 -in, one process per worker, push/pop)",
			"load_and_ssa_build_s":          loadS,
			"stubs":                         append(append([]string{}, spec.Stubs...), redirectList...),
			"decided_by":                    "data (opaque payloads, numbers, strings) are SMT terms and every branch or assertion on them is a solver query; harness choices, scheduling deviations, select cases and map orders are decisions enumerated exhaustively within the stated bounds by re-execution of the real SSA (a harness whose variables are all of the second kind reports 0 queries)",
			"outside_claim":                 spec.Outside,
			"known_findings_hit":            keys(knownHit),
		},
		"assumptions": spec.Assumptions,
		"wall_s":      time.Since(t0).Seconds(),
		"violations":  nViol,
	}
	evDir := filepath.Join(verifDir, "evidence")
	if d := os.Getenv("VERIF_EVIDENCE_DIR"); d != "" {
		// development aid (mutation self-test): keep the committed evidence of the unchanged tree
		evDir = d
	}
	os.MkdirAll(evDir, 0o755)
	eb, _ := json.MarshalIndent(ev, "", " ")
	if err := os.WriteFile(filepath.Join(evDir, prop+".json"), eb, 0o644); err != nil {
		out("ERROR: writing evidence: %v", err)
		return 2
	}
	switch exit {
	case 0:
		out("RESULT %s tier=%s: property held on everything explored (%d harnesses, %d queries, %.1fs)", prop, tier, nHarness, totalQ, time.Since(t0).Seconds())
	case 1:
		out("RESULT %s tier=%s: VIOLATED", prop, tier)
	case 3:
		out("RESULT %s tier=%s: VACUOUS (check is broken)", prop, tier)
	default:
		out("RESULT %s tier=%s: INCONCLUSIVE", prop, tier)
	}
	return exit
}

func keys(m map[string]bool) []string {
	var r []string
	for k := range m {
		r = append(r, k)
	}
	sort.Strings(r)
	return r
}

func hashOf(parts ...string) string {
	h := sha1.Sum([]byte(strings.Join(parts, "\x00")))
	return fmt.Sprintf("%x", h[:5])
}
