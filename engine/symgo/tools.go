package symgo

import (
	"encoding/json"
	"fmt"
	"os"
	"path/filepath"
	"sort"

	"golang.org/x/tools/go/ssa"
)

func loadSpec(verifDir, prop string) (*CheckSpec, error) {
	b, err := os.ReadFile(filepath.Join(verifDir, "checks", prop+".json"))
	if err != nil {
		return nil, err
	}
	var spec CheckSpec
	if err := json.Unmarshal(b, &spec); err != nil {
		return nil, err
	}
	return &spec, nil
}

// RunReplay re-executes a replay file (SSA-concrete, then natively when the
// harness is marked for native replay). Exit 1 when the violation reproduces.
func RunReplay(verifDir, repoDir, path string) int {
	b, err := os.ReadFile(path)
	if err != nil {
		fmt.Println("ERROR:", err)
		return 2
	}
	var rp ReplayFile
	if err := json.Unmarshal(b, &rp); err != nil {
		fmt.Println("ERROR:", err)
		return 2
	}
	spec, err := loadSpec(verifDir, rp.Property)
	if err != nil {
		fmt.Println("ERROR:", err)
		return 2
	}
	overlay, _, err := BuildOverlay(filepath.Join(verifDir, "harness"), repoDir)
	if err != nil {
		fmt.Println("ERROR:", err)
		return 2
	}
	ld, err := Load(repoDir, spec.Patterns, overlay, spec.Init)
	if err != nil {
		fmt.Println("ERROR:", err)
		return 2
	}
	v := ConcreteReplay(ld, &rp)
	fmt.Printf("ssa-concrete replay: reproduced=%v (%s)\n", v.Reproduced, v.Detail)
	if v.Reproduced && rp.Harness.Native {
		n := NativeReplay(verifDir, repoDir, &rp, path)
		fmt.Printf("native replay: reproduced=%v (%s)\n", n.Reproduced, truncate(n.Detail, 800))
		if !n.Reproduced {
			return 4
		}
	}
	if v.Reproduced {
		fmt.Printf("VIOLATION property=%s replay=%s\n", rp.Property, path)
		return 1
	}
	return 0
}

// RunExterns lists the body-less functions statically called from the
// packages loaded for a check (census used to maintain the stub table).
func RunExterns(verifDir, repoDir, prop string) int {
	spec, err := loadSpec(verifDir, prop)
	if err != nil {
		fmt.Println("ERROR:", err)
		return 2
	}
	overlay, _, _ := BuildOverlay(filepath.Join(verifDir, "harness"), repoDir)
	ld, err := Load(repoDir, spec.Patterns, overlay, spec.Init)
	if err != nil {
		fmt.Println("ERROR:", err)
		return 2
	}
	counts := map[string]int{}
	for _, p := range ld.Pkgs {
		for _, m := range p.Members {
			fn, ok := m.(*ssa.Function)
			if !ok {
				continue
			}
			visitFn(fn, counts, map[*ssa.Function]bool{})
		}
		// methods
		for _, m := range p.Members {
			if t, ok := m.(*ssa.Type); ok {
				for _, recv := range []bool{false, true} {
					_ = recv
				}
				ms := ld.Prog.MethodSets.MethodSet(t.Type())
				for i := 0; i < ms.Len(); i++ {
					if f := ld.Prog.MethodValue(ms.At(i)); f != nil {
						visitFn(f, counts, map[*ssa.Function]bool{})
					}
				}
			}
		}
	}
	var names []string
	for n := range counts {
		names = append(names, n)
	}
	sort.Strings(names)
	for _, n := range names {
		st := " "
		if externals[n] != nil {
			st = "*"
		}
		fmt.Printf("%s %5d %s\n", st, counts[n], n)
	}
	return 0
}

func visitFn(fn *ssa.Function, counts map[string]int, seen map[*ssa.Function]bool) {
	if seen[fn] || fn.Blocks == nil {
		return
	}
	seen[fn] = true
	for _, b := range fn.Blocks {
		for _, in := range b.Instrs {
			var cc *ssa.CallCommon
			switch x := in.(type) {
			case *ssa.Call:
				cc = &x.Call
			case *ssa.Go:
				cc = &x.Call
			case *ssa.Defer:
				cc = &x.Call
			}
			if cc == nil {
				continue
			}
			if callee := cc.StaticCallee(); callee != nil {
				if callee.Blocks == nil {
					counts[callee.String()]++
				}
			}
		}
	}
	for _, a := range fn.AnonFuncs {
		visitFn(a, counts, seen)
	}
}
