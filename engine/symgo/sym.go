package symgo

// Symbolic scalar layer: SMT-LIB2 terms as text, sorts, lifting of concrete Go
// values into terms, and symbolic versions of the Go operators.

import (
	"fmt"
	"go/token"
	"go/types"
	"math"
	"strings"
)

// Sort is the SMT sort of a symbolic scalar.
type Sort int

const (
	SBool Sort = iota
	SBV8
	SBV16
	SBV32
	SBV64
	SFP64
	SStr
	SInt // mathematical integers: auxiliary terms of the string models only
)

func (s Sort) String() string {
	switch s {
	case SBool:
		return "Bool"
	case SBV8:
		return "(_ BitVec 8)"
	case SBV16:
		return "(_ BitVec 16)"
	case SBV32:
		return "(_ BitVec 32)"
	case SBV64:
		return "(_ BitVec 64)"
	case SFP64:
		return "(_ FloatingPoint 11 53)"
	case SStr:
		return "String"
	case SInt:
		return "Int"
	}
	return "?"
}

func (s Sort) width() int {
	switch s {
	case SBV8:
		return 8
	case SBV16:
		return 16
	case SBV32:
		return 32
	case SBV64:
		return 64
	}
	return 0
}

func bvSort(w int) Sort {
	switch w {
	case 8:
		return SBV8
	case 16:
		return SBV16
	case 32:
		return SBV32
	case 64:
		return SBV64
	}
	panic(fmt.Sprintf("bvSort(%d)", w))
}

// Sym is a symbolic scalar: a term of a given sort.  Signedness is not part of
// the value; it comes from the static Go type at each operator.
type Sym struct {
	s Sort
	e string
}

func (s *Sym) String() string { return "sym:" + s.e }

func isSym(v value) bool { _, ok := v.(*Sym); return ok }

// engineAbort is panicked when the engine cannot continue soundly on this
// path (unsupported symbolic use, unwinding bound, missing stub, ...).  It is
// never a verdict about the program: a run that aborts is inconclusive.
type engineAbort struct{ msg string }

func (e engineAbort) Error() string { return "engine abort: " + e.msg }

func abortf(format string, args ...any) {
	panic(engineAbort{fmt.Sprintf(format, args...)})
}

// sortOfType returns the sort for a Go basic type, and whether it is signed.
func sortOfType(t types.Type) (Sort, bool, bool) {
	b, ok := t.Underlying().(*types.Basic)
	if !ok {
		return 0, false, false
	}
	switch b.Kind() {
	case types.Bool, types.UntypedBool:
		return SBool, false, true
	case types.Int, types.Int64, types.UntypedInt:
		return SBV64, true, true
	case types.Int8:
		return SBV8, true, true
	case types.Int16:
		return SBV16, true, true
	case types.Int32, types.UntypedRune:
		return SBV32, true, true
	case types.Uint, types.Uint64, types.Uintptr:
		return SBV64, false, true
	case types.Uint8:
		return SBV8, false, true
	case types.Uint16:
		return SBV16, false, true
	case types.Uint32:
		return SBV32, false, true
	case types.Float64, types.UntypedFloat:
		return SFP64, true, true
	case types.String, types.UntypedString:
		return SStr, false, true
	}
	return 0, false, false
}

func bvLit(w int, u uint64) string {
	switch w {
	case 8:
		return fmt.Sprintf("#x%02x", uint8(u))
	case 16:
		return fmt.Sprintf("#x%04x", uint16(u))
	case 32:
		return fmt.Sprintf("#x%08x", uint32(u))
	}
	return fmt.Sprintf("#x%016x", u)
}

func strLit(s string) string {
	var b strings.Builder
	b.WriteByte('"')
	for _, r := range []byte(s) {
		switch {
		case r == '"':
			b.WriteString(`""`)
		case r >= 0x20 && r < 0x7f && r != '\\':
			b.WriteByte(r)
		default:
			fmt.Fprintf(&b, `\u{%x}`, r)
		}
	}
	b.WriteByte('"')
	return b.String()
}

func fpLit(f float64) string {
	return fmt.Sprintf("((_ to_fp 11 53) #x%016x)", math.Float64bits(f))
}

// lift turns a concrete scalar into a Sym (or returns the Sym unchanged).
func lift(v value) *Sym {
	switch v := v.(type) {
	case *Sym:
		return v
	case bool:
		if v {
			return &Sym{SBool, "true"}
		}
		return &Sym{SBool, "false"}
	case int:
		return &Sym{SBV64, bvLit(64, uint64(v))}
	case int64:
		return &Sym{SBV64, bvLit(64, uint64(v))}
	case int32:
		return &Sym{SBV32, bvLit(32, uint64(v))}
	case int16:
		return &Sym{SBV16, bvLit(16, uint64(v))}
	case int8:
		return &Sym{SBV8, bvLit(8, uint64(v))}
	case uint:
		return &Sym{SBV64, bvLit(64, uint64(v))}
	case uint64:
		return &Sym{SBV64, bvLit(64, v)}
	case uintptr:
		return &Sym{SBV64, bvLit(64, uint64(v))}
	case uint32:
		return &Sym{SBV32, bvLit(32, uint64(v))}
	case uint16:
		return &Sym{SBV16, bvLit(16, uint64(v))}
	case uint8:
		return &Sym{SBV8, bvLit(8, uint64(v))}
	case float64:
		return &Sym{SFP64, fpLit(v)}
	case string:
		return &Sym{SStr, strLit(v)}
	}
	abortf("cannot lift %T into a term", v)
	return nil
}

func app(op string, args ...string) string {
	return "(" + op + " " + strings.Join(args, " ") + ")"
}

func symNot(a *Sym) *Sym {
	if a.e == "true" {
		return &Sym{SBool, "false"}
	}
	if a.e == "false" {
		return &Sym{SBool, "true"}
	}
	return &Sym{SBool, app("not", a.e)}
}

func symAnd(a, b *Sym) *Sym { return &Sym{SBool, app("and", a.e, b.e)} }
func symOr(a, b *Sym) *Sym  { return &Sym{SBool, app("or", a.e, b.e)} }

// valAnd combines two bool-or-Sym values.
func valAnd(a, b value) value {
	if ab, ok := a.(bool); ok {
		if !ab {
			return false
		}
		return b
	}
	if bb, ok := b.(bool); ok {
		if !bb {
			return false
		}
		return a
	}
	return symAnd(a.(*Sym), b.(*Sym))
}

func valNot(a value) value {
	if ab, ok := a.(bool); ok {
		return !ab
	}
	return symNot(a.(*Sym))
}

// symBinop implements Go's binary operators over terms. t is the static type
// of the left operand (as in binop).
func symBinop(it *interpreter, op token.Token, t types.Type, x, y value) value {
	xs := lift(x)
	sort, signed, _ := sortOfType(t)
	if sort != xs.s {
		sort = xs.s
	}
	switch op {
	case token.SHL, token.SHR:
		ys := lift(y)
		w := xs.s.width()
		if w == 0 {
			abortf("shift of non-integer term")
		}
		// Bring the count to the width of x, saturating at w.
		cw := ys.s.width()
		var cnt string
		switch {
		case cw == w:
			cnt = ys.e
		case cw < w:
			cnt = app(fmt.Sprintf("(_ zero_extend %d)", w-cw), ys.e)
		default:
			cnt = app("ite", app("bvuge", ys.e, bvLit(cw, uint64(w))), bvLit(w, uint64(w)),
				app(fmt.Sprintf("(_ extract %d 0)", w-1), ys.e))
		}
		if op == token.SHL {
			return &Sym{xs.s, app("bvshl", xs.e, cnt)}
		}
		if signed {
			return &Sym{xs.s, app("bvashr", xs.e, cnt)}
		}
		return &Sym{xs.s, app("bvlshr", xs.e, cnt)}
	}
	ys := lift(y)
	if xs.s != ys.s {
		abortf("symBinop: sort mismatch %v %s %v", xs.s, op, ys.s)
	}
	switch xs.s {
	case SBool:
		switch op {
		case token.EQL:
			return &Sym{SBool, app("=", xs.e, ys.e)}
		case token.NEQ:
			return &Sym{SBool, app("distinct", xs.e, ys.e)}
		case token.AND, token.LAND:
			return symAnd(xs, ys)
		case token.OR, token.LOR:
			return symOr(xs, ys)
		}
	case SBV8, SBV16, SBV32, SBV64:
		bin := func(o string) value { return &Sym{xs.s, app(o, xs.e, ys.e)} }
		cmp := func(so, uo string) value {
			if signed {
				return &Sym{SBool, app(so, xs.e, ys.e)}
			}
			return &Sym{SBool, app(uo, xs.e, ys.e)}
		}
		switch op {
		case token.ADD:
			return bin("bvadd")
		case token.SUB:
			return bin("bvsub")
		case token.MUL:
			return bin("bvmul")
		case token.QUO, token.REM:
			if it != nil {
				it.faultIf(&Sym{SBool, app("=", ys.e, bvLit(xs.s.width(), 0))}, "integer divide by zero")
			}
			if op == token.QUO {
				if signed {
					return bin("bvsdiv")
				}
				return bin("bvudiv")
			}
			if signed {
				return bin("bvsrem")
			}
			return bin("bvurem")
		case token.AND:
			return bin("bvand")
		case token.OR:
			return bin("bvor")
		case token.XOR:
			return bin("bvxor")
		case token.AND_NOT:
			return &Sym{xs.s, app("bvand", xs.e, app("bvnot", ys.e))}
		case token.EQL:
			return &Sym{SBool, app("=", xs.e, ys.e)}
		case token.NEQ:
			return &Sym{SBool, app("distinct", xs.e, ys.e)}
		case token.LSS:
			return cmp("bvslt", "bvult")
		case token.LEQ:
			return cmp("bvsle", "bvule")
		case token.GTR:
			return cmp("bvsgt", "bvugt")
		case token.GEQ:
			return cmp("bvsge", "bvuge")
		}
	case SFP64:
		switch op {
		case token.ADD:
			return &Sym{SFP64, app("fp.add", "RNE", xs.e, ys.e)}
		case token.SUB:
			return &Sym{SFP64, app("fp.sub", "RNE", xs.e, ys.e)}
		case token.MUL:
			return &Sym{SFP64, app("fp.mul", "RNE", xs.e, ys.e)}
		case token.QUO:
			return &Sym{SFP64, app("fp.div", "RNE", xs.e, ys.e)}
		case token.EQL:
			return &Sym{SBool, app("fp.eq", xs.e, ys.e)}
		case token.NEQ:
			return &Sym{SBool, app("not", app("fp.eq", xs.e, ys.e))}
		case token.LSS:
			return &Sym{SBool, app("fp.lt", xs.e, ys.e)}
		case token.LEQ:
			return &Sym{SBool, app("fp.leq", xs.e, ys.e)}
		case token.GTR:
			return &Sym{SBool, app("fp.gt", xs.e, ys.e)}
		case token.GEQ:
			return &Sym{SBool, app("fp.geq", xs.e, ys.e)}
		}
	case SStr:
		switch op {
		case token.ADD:
			return &Sym{SStr, app("str.++", xs.e, ys.e)}
		case token.EQL:
			return &Sym{SBool, app("=", xs.e, ys.e)}
		case token.NEQ:
			return &Sym{SBool, app("distinct", xs.e, ys.e)}
		case token.LSS:
			return &Sym{SBool, app("str.<", xs.e, ys.e)}
		case token.LEQ:
			return &Sym{SBool, app("str.<=", xs.e, ys.e)}
		case token.GTR:
			return &Sym{SBool, app("str.<", ys.e, xs.e)}
		case token.GEQ:
			return &Sym{SBool, app("str.<=", ys.e, xs.e)}
		}
	}
	abortf("symBinop: unsupported %v %s", xs.s, op)
	return nil
}

func symUnop(op token.Token, x *Sym) value {
	switch op {
	case token.NOT:
		return symNot(x)
	case token.SUB:
		if x.s == SFP64 {
			return &Sym{SFP64, app("fp.neg", x.e)}
		}
		return &Sym{x.s, app("bvneg", x.e)}
	case token.XOR:
		return &Sym{x.s, app("bvnot", x.e)}
	}
	abortf("symUnop: unsupported %s", op)
	return nil
}

// symConv converts term x of static type src to static type dst.
func symConv(it *interpreter, dst, src types.Type, x *Sym) value {
	ds, dsigned, ok := sortOfType(dst)
	if !ok {
		abortf("symConv: unsupported destination type %s", dst)
	}
	_, ssigned, _ := sortOfType(src)
	switch {
	case x.s == ds:
		return x
	case x.s.width() > 0 && ds.width() > 0:
		sw, dw := x.s.width(), ds.width()
		if dw < sw {
			return &Sym{ds, app(fmt.Sprintf("(_ extract %d 0)", dw-1), x.e)}
		}
		if ssigned {
			return &Sym{ds, app(fmt.Sprintf("(_ sign_extend %d)", dw-sw), x.e)}
		}
		return &Sym{ds, app(fmt.Sprintf("(_ zero_extend %d)", dw-sw), x.e)}
	case x.s.width() > 0 && ds == SFP64:
		if ssigned {
			return &Sym{SFP64, app("(_ to_fp 11 53)", "RNE", x.e)}
		}
		return &Sym{SFP64, app("(_ to_fp_unsigned 11 53)", "RNE", x.e)}
	case x.s == SFP64 && ds.width() > 0:
		// Go: "if the value cannot be represented by the type the result is
		// implementation-specific".  it.fpconv selects the model.
		w := ds.width()
		var conv string
		if dsigned {
			conv = app(fmt.Sprintf("(_ fp.to_sbv %d)", w), "RTZ", x.e)
		} else {
			conv = app(fmt.Sprintf("(_ fp.to_ubv %d)", w), "RTZ", x.e)
		}
		if it != nil && it.cfg.FPConvAMD64 && dsigned && w == 64 {
			// amd64 CVTTSD2SQ: out-of-range and NaN give the "integer indefinite" value.
			lo := fpLit(-9223372036854775808.0)
			hi := fpLit(9223372036854775808.0)
			inRange := app("and", app("fp.geq", x.e, lo), app("fp.lt", x.e, hi))
			return &Sym{ds, app("ite", inRange, conv, bvLit(64, 1<<63))}
		}
		return &Sym{ds, conv}
	}
	abortf("symConv: unsupported %v -> %s", x.s, dst)
	return nil
}
