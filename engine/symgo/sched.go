package symgo

// Controlled scheduler: interpreted goroutines run one at a time (baton
// passing on real goroutines); every scheduling choice, select choice, timer
// firing and map order is a decision of the exploration.

import (
	"fmt"
	"go/token"
	"go/types"
	"strings"

	"golang.org/x/tools/go/ssa"
)

type goroutine struct {
	id          int
	name        string
	wake        chan struct{}
	done        bool
	started     bool
	blocked     bool
	ready       func() bool
	what        string
	system      bool // spawned by the harness runtime (verifrt); not counted as a leak
	held        []*mutexState
	top         *frame
	atomicDepth int
	vc          []int
	spawnPos    string
	quiet       bool // blocked waiting for quiescence
	stalled     bool // a slow goroutine: parked until everything else (timers included) has come to rest
}

type Chan struct {
	id     int
	cap    int
	buf    []value
	closed bool
	elem   types.Type
	site   string
	// unbuffered rendezvous
	sendq []*sendWaiter
	vc    []int // HB: clock of last send/close
	vcs   [][]int
}

type sendWaiter struct {
	v     value
	taken bool
	g     *goroutine
}

type mutexState struct {
	id       int
	locked   bool
	owner    *goroutine
	guarded  bool // allocated in a package listed in GuardedMutexPkgs
	site     string
	vc       []int
	accessor *goroutine // exclusive-phase owner
	shared   bool
	readers  int // sync.RWMutex: read locks held
}

type wgState struct {
	n  int
	vc []int
}

type timer struct {
	deadline int64
	ch       *Chan
	fired    bool
	id       int
}

func (it *interpreter) newChan(capacity int, elem types.Type, site string) *Chan {
	it.nextObj++
	return &Chan{id: it.nextObj, cap: capacity, elem: elem, site: site}
}

func (it *interpreter) event(format string, args ...any) {
	if len(it.events) < 400 {
		it.events = append(it.events, fmt.Sprintf(format, args...))
	}
}

// ---------------------------------------------------------------------------
// goroutine management

func (it *interpreter) spawn(fr *frame, pos token.Pos, fn value, args []value) {
	g := &goroutine{id: len(it.gs), wake: make(chan struct{}, 1)}
	g.spawnPos = fr.pos()
	g.name = fmt.Sprintf("g%d@%s", g.id, g.spawnPos)
	if fr.g != nil && (fr.g.atomicDepth > 0 || fr.g.system) || (fr.fn.Pkg != nil && fr.fn.Pkg == it.ld.verifrt) {
		g.system = true
	}
	if it.hb != nil {
		it.hb.fork(fr.g, g)
	}
	it.gs = append(it.gs, g)
	it.pc.wg.Add(1)
	go func() {
		defer it.pc.wg.Done()
		<-g.wake
		defer it.goExit(g)
		if it.aborting {
			return
		}
		g.started = true
		call(it, nil, pos, fn, args)
	}()
}

// goExit runs (as a deferred call) when an interpreted goroutine ends,
// normally or by unwinding.
func (it *interpreter) goExit(g *goroutine) {
	r := recover()
	g.done = true
	switch x := r.(type) {
	case nil:
	case abortPath:
	case engineAbort:
		it.engineError(x.msg)
	case targetPanic:
		it.reportCrash(g, "panic: "+panicString(it, x.v))
	case targetFault:
		it.reportCrash(g, "panic: "+string(x))
	default:
		it.engineError(fmt.Sprintf("unexpected Go panic in interpreted goroutine: %v", r))
	}
	if it.aborting {
		it.wakeNextForAbort()
		return
	}
	// hand the baton to someone else
	it.cur = nil
	next := it.pickNext(nil)
	if next == nil {
		// nothing can run: the main goroutine must be blocked -> deadlock
		it.deadlock()
		it.wakeNextForAbort()
		return
	}
	it.cur = next
	next.wake <- struct{}{}
}

func (it *interpreter) wakeNextForAbort() {
	for _, g := range it.gs {
		if !g.done && g != it.cur {
			select {
			case g.wake <- struct{}{}:
				it.cur = g
				return
			default:
			}
		}
	}
}

func panicString(it *interpreter, v value) string {
	if i, ok := v.(iface); ok {
		if s, ok := i.v.(string); ok {
			return s
		}
		if i.t != nil {
			if m := it.errorString(i); m != "" {
				return m
			}
		}
	}
	return toString(v)
}

// park blocks the calling (real) goroutine until the baton comes back.
func (it *interpreter) park(g *goroutine) {
	<-g.wake
	if it.aborting {
		panic(abortPath{})
	}
}

// switchTo passes the baton from the current goroutine to next and parks.
func (it *interpreter) switchTo(self, next *goroutine) {
	if next == self {
		return
	}
	it.cur = next
	next.wake <- struct{}{}
	it.park(self)
}

func (it *interpreter) enabledOthers(self *goroutine) []*goroutine {
	var res []*goroutine
	for _, g := range it.gs {
		if g == self || g.done {
			continue
		}
		if g.blocked {
			if g.quiet {
				// waits for quiescence: idle by definition while somebody evaluates quiescence
				if it.inQuiet > 0 {
					continue
				}
			}
			if g.ready != nil && g.ready() {
				res = append(res, g)
			}
			continue
		}
		res = append(res, g)
	}
	return res
}

// quiescent reports whether no goroutine other than self (and other quiescence waiters) can run.
func (it *interpreter) quiescent(self *goroutine, timers bool) bool {
	it.inQuiet++
	defer func() { it.inQuiet-- }()
	if !self.stalled {
		// a stalled goroutine resumes before anybody concludes that nothing can move any more
		for _, g := range it.gs {
			if g.stalled && !g.done {
				return false
			}
		}
	}
	if len(it.enabledOthers(self)) > 0 {
		return false
	}
	return !timers || len(it.pendingTimers()) == 0
}

func (it *interpreter) pendingTimers() []*timer {
	var res []*timer
	for _, t := range it.timers {
		if !t.fired {
			res = append(res, t)
		}
	}
	return res
}

func (it *interpreter) fire(t *timer) {
	t.fired = true
	if t.deadline > it.now {
		it.now = t.deadline
	}
	if len(t.ch.buf) < t.ch.cap {
		t.ch.buf = append(t.ch.buf, int64(it.now))
	}
	it.event("timer#%d fires at t=%dms", t.id, it.now/1e6)
}

// rotate orders goroutines round-robin starting after id `after`.
func rotate(gs []*goroutine, after int) []*goroutine {
	var hi, lo []*goroutine
	for _, g := range gs {
		if g.id > after {
			hi = append(hi, g)
		} else {
			lo = append(lo, g)
		}
	}
	return append(hi, lo...)
}

// chooseDelayed picks one of n alternatives under delay bounding: alternative
// j costs j delays (deviations from the deterministic round-robin scheduler).
func (it *interpreter) chooseDelayed(kind string, n int) int {
	if n <= 1 {
		return 0
	}
	budget := it.cfg.Preemptions - it.preemptions
	if budget < 0 {
		budget = 0
	}
	if budget > n-1 {
		budget = n - 1
	}
	if budget == 0 {
		return 0
	}
	k := it.pc.choose(it, kind, budget+1, nil)
	it.preemptions += k
	return k
}

// pickNext chooses the goroutine to run when self cannot continue (blocked or
// finished). Scheduling is delay bounded: the default is round-robin after the
// current goroutine; every deviation costs one unit of the bound. Timers fire
// when nothing else is enabled (discrete-event time) or, in adversarial mode,
// are offered as (costed) alternatives.
func (it *interpreter) pickNext(self *goroutine) *goroutine {
	after := -1
	if self != nil {
		after = self.id
	} else if it.lastRun != nil {
		after = it.lastRun.id
	}
	for {
		en := rotate(it.enabledOthers(self), after)
		if it.cfg.MainFirst {
			for i, g := range en {
				if g.id == 0 && i > 0 {
					en = append([]*goroutine{g}, append(en[:i:i], en[i+1:]...)...)
					break
				}
			}
		}
		if self != nil && !self.done && self.blocked && self.ready != nil && self.ready() {
			// a timer fired for the blocked goroutine itself
			en = append(en, self)
		}
		var tm []*timer
		if it.cfg.AdversarialTime {
			tm = it.pendingTimers()
		}
		if len(en) == 0 && !it.cfg.AdversarialTime {
			// advance the clock to the earliest deadline(s)
			pend := it.pendingTimers()
			if len(pend) == 0 {
				return nil
			}
			min := pend[0].deadline
			for _, t := range pend {
				if t.deadline < min {
					min = t.deadline
				}
			}
			var first []*timer
			for _, t := range pend {
				if t.deadline == min {
					first = append(first, t)
				}
			}
			k := it.chooseDelayed("timer-tie", len(first))
			it.fire(first[k])
			continue
		}
		n := len(en) + len(tm)
		if n == 0 {
			return nil
		}
		k := it.chooseDelayed("sched", n)
		if k < len(en) {
			g := en[k]
			g.blocked = false
			it.lastRun = g
			return g
		}
		it.fire(tm[k-len(en)])
	}
}

// schedPoint is called by the running goroutine before a visible
// synchronisation operation that it could perform right now. Continuing is
// free; switching to the j-th other enabled goroutine (round-robin order)
// costs j delays.
func (it *interpreter) schedPoint(fr *frame, what string) {
	self := fr.g
	if self == nil || self.atomicDepth > 0 || it.aborting {
		return
	}
	// "Slow goroutine" decision (C09): the running goroutine is parked at this point until every other
	// goroutine has come to rest and every pending timer has fired - one decision models an arbitrarily
	// long delay between two of its actions (firing n timers early would cost n units of the delay bound).
	if it.stalls < it.cfg.Stalls && self.id != 0 && !self.system && !self.stalled {
		if it.pc.choose(it, "stall", 2, nil) == 1 {
			it.stalls++
			self.stalled, self.quiet = true, true
			where := fr.pos()
			for c := fr.caller; c != nil; c = c.caller {
				if it.ld.isRepoFn(c.fn) {
					where = c.pos() + " in " + c.fn.String()
					break
				}
			}
			it.event("stall g%d before %s at %s", self.id, what, where)
			it.block(fr, "stalled (slow goroutine) before "+what, func() bool { return it.quiescent(self, true) })
			self.stalled, self.quiet = false, false
		}
	}
	for {
		if it.preemptions >= it.cfg.Preemptions {
			return
		}
		en := rotate(it.enabledOthers(self), self.id)
		var tm []*timer
		if it.cfg.AdversarialTime {
			tm = it.pendingTimers()
		}
		n := 1 + len(en) + len(tm)
		if n == 1 {
			return
		}
		k := it.chooseDelayed("preempt", n)
		if k == 0 {
			return
		}
		if k-1 < len(en) {
			g := en[k-1]
			g.blocked = false
			it.event("preempt g%d before %s at %s -> g%d", self.id, what, fr.pos(), g.id)
			it.lastRun = g
			it.switchTo(self, g)
			return
		}
		it.fire(tm[k-1-len(en)])
	}
}

// block parks the running goroutine until ready() holds.
func (it *interpreter) block(fr *frame, what string, ready func() bool) {
	self := fr.g
	if self.atomicDepth > 0 {
		abortf("blocking operation (%s) inside an atomic harness-runtime function at %s", what, fr.pos())
	}
	for !ready() {
		self.blocked = true
		self.ready = ready
		self.what = what + " at " + fr.pos()
		next := it.pickNext(self)
		if next == nil {
			it.deadlock()
			panic(abortPath{})
		}
		if next != self {
			it.switchTo(self, next)
		}
		self.blocked = false
	}
	self.blocked = false
	self.ready = nil
}

// deadlock: no goroutine can run and no timer is pending.
func (it *interpreter) deadlock() {
	var desc []string
	for _, g := range it.gs {
		if !g.done {
			w := g.what
			if !g.blocked {
				w = "(not started)"
			}
			desc = append(desc, fmt.Sprintf("g%d[%s]: %s", g.id, g.spawnPos, w))
		}
	}
	it.res.Deadlock = desc
	if it.cfg.DeadlockIsFinding {
		key := "deadlock"
		if m := it.gs[0]; !m.done {
			key = "deadlock: main blocked in " + m.what
		}
		it.violation("deadlock", key, strings.Join(desc, "; "), nil)
	}
	it.endPath("deadlock")
}

// endPath marks the path finished; all goroutines unwind.
func (it *interpreter) endPath(reason string) {
	if !it.aborting {
		it.aborting = true
		it.res.End = reason
	}
}

// ---------------------------------------------------------------------------
// channels

func (it *interpreter) chanSend(fr *frame, cv value, v value) {
	c, _ := cv.(*Chan)
	it.schedPoint(fr, "send")
	if c == nil {
		it.block(fr, "send on nil channel", func() bool { return false })
	}
	if c.closed {
		panic(targetFault("send on closed channel"))
	}
	if c.cap == 0 {
		w := &sendWaiter{v: v, g: fr.g}
		c.sendq = append(c.sendq, w)
		if it.hb != nil {
			it.hb.release(fr.g, &c.vc)
		}
		it.block(fr, fmt.Sprintf("send on unbuffered chan#%d", c.id), func() bool { return w.taken || c.closed })
		if !w.taken && c.closed {
			panic(targetFault("send on closed channel"))
		}
		return
	}
	if len(c.buf) >= c.cap {
		it.block(fr, fmt.Sprintf("send on full chan#%d (%s)", c.id, c.site), func() bool { return len(c.buf) < c.cap || c.closed })
		if c.closed {
			panic(targetFault("send on closed channel"))
		}
	}
	c.buf = append(c.buf, v)
	if it.hb != nil {
		it.hb.chanSend(fr.g, c)
	}
}

func (c *Chan) canRecv() bool {
	return c != nil && (len(c.buf) > 0 || c.closed || len(c.sendq) > 0)
}

func (it *interpreter) takeRecv(g *goroutine, c *Chan) (value, bool) {
	if len(c.buf) > 0 {
		v := c.buf[0]
		c.buf = c.buf[1:]
		if it.hb != nil {
			it.hb.chanRecv(g, c)
		}
		return v, true
	}
	if len(c.sendq) > 0 {
		w := c.sendq[0]
		c.sendq = c.sendq[1:]
		w.taken = true
		if it.hb != nil {
			it.hb.acquire(g, c.vc)
		}
		return w.v, true
	}
	// closed
	if it.hb != nil {
		it.hb.acquire(g, c.vc)
	}
	return zero(c.elem), false
}

func (it *interpreter) chanRecv(fr *frame, cv value, elem types.Type, commaOk bool) value {
	c, _ := cv.(*Chan)
	it.schedPoint(fr, "recv")
	if c == nil {
		it.block(fr, "receive from nil channel", func() bool { return false })
	}
	if !c.canRecv() {
		it.block(fr, fmt.Sprintf("receive on chan#%d (%s)", c.id, c.site), c.canRecv)
	}
	v, ok := it.takeRecv(fr.g, c)
	if commaOk {
		return tuple{v, ok}
	}
	return v
}

func (it *interpreter) chanClose(fr *frame, cv value) {
	c, _ := cv.(*Chan)
	it.schedPoint(fr, "close")
	if c == nil {
		panic(targetFault("close of nil channel"))
	}
	if c.closed {
		panic(targetFault("close of closed channel"))
	}
	c.closed = true
	if it.hb != nil {
		it.hb.release(fr.g, &c.vc)
	}
}

func (it *interpreter) doSelect(fr *frame, instr *ssa.Select) value {
	it.schedPoint(fr, "select")
	type cs struct {
		c    *Chan
		send bool
		v    value
	}
	cases := make([]cs, len(instr.States))
	for i, st := range instr.States {
		c, _ := fr.get(st.Chan).(*Chan)
		cases[i] = cs{c: c, send: st.Dir == types.SendOnly}
		if cases[i].send {
			cases[i].v = fr.get(st.Send)
		}
	}
	readySet := func() []int {
		var r []int
		for i, c := range cases {
			if c.c == nil {
				continue
			}
			if c.send {
				if c.c.closed || (c.c.cap > 0 && len(c.c.buf) < c.c.cap) {
					r = append(r, i)
				}
			} else if c.c.canRecv() {
				r = append(r, i)
			}
		}
		return r
	}
	rs := readySet()
	chosen := -1
	if len(rs) == 0 {
		if instr.Blocking {
			var names []string
			for _, c := range cases {
				if c.c != nil {
					names = append(names, fmt.Sprintf("chan#%d(%s)", c.c.id, c.c.site))
				}
			}
			it.block(fr, "select on "+strings.Join(names, ","), func() bool { return len(readySet()) > 0 })
			rs = readySet()
		}
	}
	if len(rs) > 0 {
		k := 0
		if len(rs) > 1 {
			k = it.pc.choose(it, "select@"+fr.pos(), len(rs), nil)
		}
		chosen = rs[k]
	}
	var recv value
	recvOk := false
	if chosen >= 0 {
		c := cases[chosen]
		if c.send {
			if c.c.closed {
				panic(targetFault("send on closed channel"))
			}
			c.c.buf = append(c.c.buf, c.v)
			if it.hb != nil {
				it.hb.chanSend(fr.g, c.c)
			}
		} else {
			recv, recvOk = it.takeRecv(fr.g, c.c)
		}
	}
	r := tuple{chosen, recvOk}
	for i, st := range instr.States {
		if st.Dir == types.RecvOnly {
			var v value
			if i == chosen && recvOk {
				v = recv
			} else {
				v = zero(st.Chan.Type().Underlying().(*types.Chan).Elem())
			}
			r = append(r, v)
		}
	}
	return r
}

// ---------------------------------------------------------------------------
// sync.Mutex, sync.WaitGroup, atomic.Bool (keyed by the address of the Go value)

func (it *interpreter) mutexOf(fr *frame, p *value) *mutexState {
	m := it.mutexes[p]
	if m == nil {
		it.nextObj++
		m = &mutexState{id: it.nextObj}
		it.mutexes[p] = m
	}
	return m
}

// markMutexSite records where a mutex was allocated (called from the natives
// when a &sync.Mutex{} is first locked we only know the locker; good enough
// for diagnostics) and whether it is in a guarded package.
func (it *interpreter) classifyMutex(fr *frame, m *mutexState) {
	if m.site != "" {
		return
	}
	m.site = fr.pos()
	pkg := ""
	if fr.caller != nil && fr.caller.fn.Pkg != nil {
		pkg = fr.caller.fn.Pkg.Pkg.Path()
	}
	for _, p := range it.cfg.GuardedMutexPkgs {
		if p == pkg {
			m.guarded = true
		}
	}
}

func (it *interpreter) mutexLock(fr *frame, p *value) {
	m := it.mutexOf(fr, p)
	it.classifyMutex(fr, m)
	g := fr.g
	visible := true
	if m.guarded {
		// Reduction: a lock that is only ever taken while another lock is
		// held is a both-mover; no scheduling point is needed. Checked here.
		if m.accessor == nil {
			m.accessor = g
		} else if m.accessor != g {
			m.shared = true
		}
		if len(g.held) > 0 || !m.shared {
			visible = false
		} else {
			abortf("mutex %s assumed guarded (GuardedMutexPkgs) is locked by g%d with no other lock held at %s", m.site, g.id, fr.pos())
		}
	}
	if visible {
		it.schedPoint(fr, "Lock")
	}
	if m.locked || m.readers > 0 {
		it.block(fr, fmt.Sprintf("Lock of mutex#%d (%s) held by g%d", m.id, m.site, ownerID(m)), func() bool { return !m.locked && m.readers == 0 })
	}
	m.locked = true
	m.owner = g
	g.held = append(g.held, m)
	if it.hb != nil {
		it.hb.acquire(g, m.vc)
	}
}

// rLock / rUnlock: read side of sync.RWMutex (readers share, a writer excludes).
func (it *interpreter) rLock(fr *frame, p *value) {
	m := it.mutexOf(fr, p)
	it.classifyMutex(fr, m)
	it.schedPoint(fr, "RLock")
	if m.locked {
		it.block(fr, fmt.Sprintf("RLock of mutex#%d (%s) held by g%d", m.id, m.site, ownerID(m)), func() bool { return !m.locked })
	}
	m.readers++
	if it.hb != nil {
		it.hb.acquire(fr.g, m.vc)
	}
}

func (it *interpreter) rUnlock(fr *frame, p *value) {
	m := it.mutexOf(fr, p)
	if m.readers <= 0 {
		panic(targetFault("fatal error: sync: RUnlock of unlocked RWMutex"))
	}
	m.readers--
	if it.hb != nil {
		it.hb.release(fr.g, &m.vc)
	}
}

func ownerID(m *mutexState) int {
	if m.owner == nil {
		return -1
	}
	return m.owner.id
}

func (it *interpreter) mutexUnlock(fr *frame, p *value) {
	m := it.mutexOf(fr, p)
	if !m.locked {
		panic(targetFault("fatal error: sync: unlock of unlocked mutex"))
	}
	m.locked = false
	if o := m.owner; o != nil {
		for i := len(o.held) - 1; i >= 0; i-- {
			if o.held[i] == m {
				o.held = append(o.held[:i], o.held[i+1:]...)
				break
			}
		}
	}
	m.owner = nil
	if it.hb != nil {
		it.hb.release(fr.g, &m.vc)
	}
}

func (it *interpreter) wgOf(p *value) *wgState {
	w := it.wgs[p]
	if w == nil {
		w = &wgState{}
		it.wgs[p] = w
	}
	return w
}

func (it *interpreter) wgAdd(fr *frame, p *value, delta int) {
	w := it.wgOf(p)
	if it.hb != nil {
		it.hb.wgAdd(fr, w, delta)
	}
	w.n += delta
	if w.n < 0 {
		panic(targetFault("sync: negative WaitGroup counter"))
	}
}

func (it *interpreter) wgWait(fr *frame, p *value) {
	w := it.wgOf(p)
	it.schedPoint(fr, "WaitGroup.Wait")
	if w.n > 0 {
		it.block(fr, "WaitGroup.Wait", func() bool { return w.n == 0 })
	}
	if it.hb != nil {
		it.hb.acquire(fr.g, w.vc)
	}
}

// ---------------------------------------------------------------------------
// timers

func (it *interpreter) newTimer(fr *frame, d int64) *Chan {
	c := it.newChan(1, types.Typ[types.Int64], fr.pos())
	if d < 0 {
		d = 0
	}
	t := &timer{deadline: it.now + d, ch: c, id: len(it.timers)}
	it.timers = append(it.timers, t)
	it.event("timer#%d armed for +%dms at %s", t.id, d/1e6, fr.pos())
	return c
}

func (it *interpreter) sleep(fr *frame, d int64) {
	c := it.newTimer(fr, d)
	it.schedPoint(fr, "Sleep")
	it.block(fr, "time.Sleep", c.canRecv)
	it.takeRecv(fr.g, c)
}

// ---------------------------------------------------------------------------
// map iteration order as a decision

func (it *interpreter) mapOrder(fr *frame, m *omap) []*omapEntry {
	live := m.live()
	n := len(live)
	if it.permuteActive && n > 1 && (fr.g == nil || fr.g.atomicDepth == 0) && it.ld.isRepoFn(fr.fn) {
		// single-site permutation (C16): only the k-th eligible range execution is permuted
		k := it.permuteCount
		it.permuteCount++
		if k == it.permuteAt {
			site := "maporder1@" + fr.pos()
			if n <= 4 {
				rest := append([]*omapEntry(nil), live...)
				var res []*omapEntry
				for len(rest) > 1 {
					c := it.pc.choose(it, site, len(rest), nil)
					res = append(res, rest[c])
					rest = append(rest[:c:c], rest[c+1:]...)
				}
				return append(res, rest[0])
			}
			c := it.pc.choose(it, site, n+1, nil)
			res := make([]*omapEntry, n)
			if c == n {
				for i := range live {
					res[i] = live[n-1-i]
				}
				return res
			}
			for i := range live {
				res[i] = live[(i+c)%n]
			}
			return res
		}
		return live
	}
	if n <= 1 || it.cfg.MapOrders == "" || it.cfg.MapOrders == "first" {
		return live
	}
	if fr.g != nil && fr.g.atomicDepth > 0 {
		return live
	}
	site := "maporder@" + fr.pos()
	switch it.cfg.MapOrders {
	case "rot":
		// n rotations + reversed
		k := it.pc.choose(it, site, n+1, nil)
		res := make([]*omapEntry, n)
		if k == n {
			for i := range live {
				res[i] = live[n-1-i]
			}
			return res
		}
		for i := range live {
			res[i] = live[(i+k)%n]
		}
		return res
	case "all":
		if n > 4 {
			k := it.pc.choose(it, site, n+1, nil)
			res := make([]*omapEntry, n)
			if k == n {
				for i := range live {
					res[i] = live[n-1-i]
				}
				return res
			}
			for i := range live {
				res[i] = live[(i+k)%n]
			}
			return res
		}
		rest := append([]*omapEntry(nil), live...)
		var res []*omapEntry
		for len(rest) > 1 {
			k := it.pc.choose(it, site, len(rest), nil)
			res = append(res, rest[k])
			rest = append(rest[:k:k], rest[k+1:]...)
		}
		return append(res, rest[0])
	}
	return live
}
