package symgo

import "math"

// SMT definitions of the math functions the built-ins wrap (IEEE-754 semantics
// as documented by package math).
func init() {
	fp1 := func(smt func(x string) *Sym, host func(float64) any) externalFn {
		return func(fr *frame, args []value) value {
			if s, ok := args[0].(*Sym); ok {
				return smt(s.e)
			}
			return host(args[0].(float64))
		}
	}
	externals["math.Floor"] = fp1(func(x string) *Sym { return &Sym{SFP64, app("fp.roundToIntegral", "RTN", x)} }, func(f float64) any { return math.Floor(f) })
	externals["math.Ceil"] = fp1(func(x string) *Sym { return &Sym{SFP64, app("fp.roundToIntegral", "RTP", x)} }, func(f float64) any { return math.Ceil(f) })
	externals["math.Trunc"] = fp1(func(x string) *Sym { return &Sym{SFP64, app("fp.roundToIntegral", "RTZ", x)} }, func(f float64) any { return math.Trunc(f) })
	externals["math.Round"] = fp1(func(x string) *Sym { return &Sym{SFP64, app("fp.roundToIntegral", "RNA", x)} }, func(f float64) any { return math.Round(f) })
	externals["math.Abs"] = fp1(func(x string) *Sym { return &Sym{SFP64, app("fp.abs", x)} }, func(f float64) any { return math.Abs(f) })
	externals["math.IsNaN"] = fp1(func(x string) *Sym { return &Sym{SBool, app("fp.isNaN", x)} }, func(f float64) any { return math.IsNaN(f) })
	externals["math.IsInf"] = func(fr *frame, args []value) value {
		sign := int(asInt64(args[1]))
		if s, ok := args[0].(*Sym); ok {
			inf := app("fp.isInfinite", s.e)
			switch {
			case sign > 0:
				return &Sym{SBool, app("and", inf, app("fp.isPositive", s.e))}
			case sign < 0:
				return &Sym{SBool, app("and", inf, app("fp.isNegative", s.e))}
			}
			return &Sym{SBool, inf}
		}
		return math.IsInf(args[0].(float64), sign)
	}
	externals["math.Signbit"] = fp1(func(x string) *Sym { return &Sym{SBool, app("fp.isNegative", x)} }, func(f float64) any { return math.Signbit(f) })
	externals["math.Inf"] = func(fr *frame, args []value) value { return math.Inf(int(asInt64(args[0]))) }
	externals["math.NaN"] = func(fr *frame, args []value) value { return math.NaN() }
	externals["math.Float64bits"] = func(fr *frame, args []value) value {
		if _, ok := args[0].(*Sym); ok {
			abortf("math.Float64bits on a term is not supported")
		}
		return math.Float64bits(args[0].(float64))
	}
}
