#!/usr/bin/env python3
"""Development-time mutation self-test over tools/mutants.json.
usage: mutrun.py [-j N] [--tests] [id ...]
Each mutant is applied in its own scratch worktree of /repo under /tmp (removed afterwards); the named
checks run against it through VERIF_REPO. With --tests the repository tests of the mutated package are run too,
to tell whether the existing suite would have noticed. Results: tools/mutants_result.json."""
import sys,subprocess,os,json,concurrent.futures as cf
ENV=dict(os.environ,GOFLAGS='-mod=mod',GOPROXY='off',GOSUMDB='off',GOTOOLCHAIN='local')
args=sys.argv[1:]; j=3; tests=False; ids=[]
while args:
    a=args.pop(0)
    if a=='-j': j=int(args.pop(0))
    elif a=='--tests': tests=True
    else: ids.append(a)
muts=[m for m in json.load(open('/verif/tools/mutants.json')) if not ids or m['id'] in ids]
def sh(c,**k): return subprocess.run(c,shell=True,capture_output=True,text=True,env=ENV,**k)
def one(m):
    wt=f"/tmp/mut-{m['id']}"
    sh(f"git -C /repo worktree remove --force {wt}; git -C /repo worktree add --detach {wt} HEAD")
    res={'id':m['id'],'what':m['what'],'file':m['file']}
    try:
        p=os.path.join(wt,m['file']); src=open(p).read()
        if src.count(m['old'])!=1:
            res['status']=f"pattern occurs {src.count(m['old'])} times"; return res
        open(p,'w').write(src.replace(m['old'],m['new']))
        b=sh(f"cd {wt} && go build ./...")
        if b.returncode!=0:
            res['status']='does not compile: '+b.stderr[:200]; return res
        if tests:
            d=os.path.dirname(m['file'])
            t=sh(f"cd {wt} && go test -count=1 ./{d}/ 2>&1 | grep -E '^(--- FAIL|FAIL|ok)' | head -5",timeout=1200)
            res['repo_tests']=t.stdout.strip()
        res['checks']={}
        caught=False
        for c in m['checks']:
            r=subprocess.run(f"/verif/check {c}",shell=True,capture_output=True,text=True,env=dict(ENV,VERIF_REPO=wt,VERIF_EVIDENCE_DIR=wt+'/_ev'))
            lines=[l.strip()[:220] for l in r.stdout.splitlines() if l.startswith(('  harness','INCONCL','VACUOUS'))]
            res['checks'][c]={'exit':r.returncode,'lines':lines[:4]}
            if r.returncode==1: caught=True; break
        res['status']='CAUGHT' if caught else 'MISSED'
    finally:
        sh(f"git -C /repo worktree remove --force {wt}; git -C /repo worktree prune")
    return res
out=[]
with cf.ThreadPoolExecutor(j) as ex:
    for r in ex.map(one,muts):
        print(r['id'],r['status'],r.get('repo_tests','').replace('\n',' | ')[:120]); 
        for c,v in r.get('checks',{}).items(): print('   ',c,'exit',v['exit'],*v['lines'][:2])
        sys.stdout.flush(); out.append(r)
old=[]
try: old=json.load(open('/verif/tools/mutants_result.json'))
except Exception: pass
byid={r['id']:r for r in old}; byid.update({r['id']:r for r in out})
json.dump(sorted(byid.values(),key=lambda r:int(r['id'][1:])),open('/verif/tools/mutants_result.json','w'),indent=1)
