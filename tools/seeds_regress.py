#!/usr/bin/env python3
"""Re-runs every kept seeded change against the current checks.
usage: seeds_regress.py [-j N] [Sxx ...]
For each /verif/seeded/<id>: scratch worktree of /repo (HEAD, or meta.applies_to's commit) under /tmp, apply
patch.diff, run the check of the property it breaks (plus meta.extra_checks) through VERIF_REPO, expect exit 1.
Writes tools/seeds_result.json. Worktrees are removed afterwards."""
import sys,os,json,glob,subprocess,re,concurrent.futures as cf
ENV=dict(os.environ,GOFLAGS='-mod=mod',GOPROXY='off',GOSUMDB='off',GOTOOLCHAIN='local')
args=sys.argv[1:]; j=3; ids=[]
while args:
    a=args.pop(0)
    if a=='-j': j=int(args.pop(0))
    else: ids.append(a)
def sh(c): return subprocess.run(c,shell=True,capture_output=True,text=True,env=ENV)
def one(d):
    m=json.load(open(d+'/meta.json')); sid=m['id']; short=sid.split('-')[0]
    wt=f'/tmp/seedrun-{short}'
    rev='HEAD'
    mm=re.search(r'commit ([0-9a-f]{7,})',m.get('applies_to',''))
    if mm: rev=mm.group(1)
    sh(f"git -C /repo worktree remove --force {wt}; git -C /repo worktree add --detach {wt} {rev}")
    res={'id':sid,'property':m['breaks_property'],'rev':rev}
    try:
        a=sh(f"git -C {wt} apply {d}/patch.diff")
        if a.returncode!=0:
            res['status']='PATCH DOES NOT APPLY: '+a.stderr[:200]; return res
        b=sh(f"cd {wt} && go build ./...")
        if b.returncode!=0:
            res['status']='does not compile'; return res
        res['checks']={}
        caught=False
        for c in [m['breaks_property']]+m.get('extra_checks',[]):
            r=subprocess.run(f"/verif/check {c}",shell=True,capture_output=True,text=True,env=dict(ENV,VERIF_REPO=wt,VERIF_EVIDENCE_DIR=wt+'/_ev'))
            lines=[l.strip()[:200] for l in r.stdout.splitlines() if l.startswith(('  harness','INCONCL','VACUOUS'))]
            res['checks'][c]={'exit':r.returncode,'lines':lines[:3]}
            if r.returncode==1: caught=True; break
        res['status']='CAUGHT' if caught else 'MISSED'
    finally:
        sh(f"git -C /repo worktree remove --force {wt}; git -C /repo worktree prune")
    return res
dirs=[d for d in sorted(glob.glob('/verif/seeded/S*')) if not ids or os.path.basename(d).split('-')[0] in ids]
out=[]
with cf.ThreadPoolExecutor(j) as ex:
    for r in ex.map(one,dirs):
        print(r['id'],r['property'],r['status']); 
        for c,v in r.get('checks',{}).items(): print('   ',c,'exit',v['exit'],*v['lines'][:1])
        sys.stdout.flush(); out.append(r)
old=[]
try: old=json.load(open('/verif/tools/seeds_result.json'))
except Exception: pass
byid={r['id']:r for r in old}; byid.update({r['id']:r for r in out})
json.dump(sorted(byid.values(),key=lambda r:r['id']),open('/verif/tools/seeds_result.json','w'),indent=1)
