#!/bin/sh
# usage: confirm_seed.sh <worktree> : confirms a seeded change (build, suite, demo fails with / passes without)
export GOFLAGS=-mod=mod GOPROXY=off GOSUMDB=off GOTOOLCHAIN=local
W=$1
cd "$W" || exit 2
echo "== $W"
git diff --stat -- '*.go' | tail -1
go build ./... || { echo "BUILD FAILED"; exit 1; }
PK=$(find . -name 'zz_seed_demo_test.go' -not -path './_seed/*' | xargs -n1 dirname | sort -u | tr '\n' ' ')
echo "demo packages: $PK"
echo "-- existing suite with the change (demo skipped)"
go test -p 2 -count=1 -skip 'TestSeedDemo' ./workflow/ ./internal/... 2>&1 | grep -E "^(--- FAIL|FAIL|ok)" | grep -v "^ok" ; echo "suite-done"
echo "-- demo with the change (must fail)"
go test -count=1 -run 'TestSeedDemo' $PK 2>&1 | grep -E "^(--- FAIL|FAIL|ok|PASS)" | head -5
echo "-- demo without the change (must pass)"
git apply -R _seed/patch.diff || { echo "cannot revert"; exit 1; }
go test -count=1 -run 'TestSeedDemo' $PK 2>&1 | grep -E "^(--- FAIL|FAIL|ok|PASS)" | head -5
git apply _seed/patch.diff
echo "== done $W"
