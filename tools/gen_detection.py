#!/usr/bin/env python3
"""Regenerates the seeds and mutants tables of DESIGN.md (section 5a) from seeded/*/meta.json and
tools/mutants_result.json, between the <!-- SEEDS --> / <!-- MUTANTS --> marker pairs."""
import json,glob,re
p='/verif/DESIGN.md'
s=open(p).read()
rows=[]
first=0
for f in sorted(glob.glob('/verif/seeded/*/meta.json')):
    m=json.load(open(f)); cb=m['caught_by']
    fs='as first seen' in cb
    first+=fs
    rows.append(f"| {m['id'].split('-')[0]} | {m['breaks_property']} | {m['id'].split('-',1)[1].replace('-',' ')} | {m['needs_to_manifest'][:160]} | {'first seen' if fs else 'after strengthening'} | {cb[:300]} |")
seeds="| seed | property | change | needs | caught | by |\n|---|---|---|---|---|---|\n"+'\n'.join(rows)+f"\n\n({len(rows)} seeds; {first} caught by the checks as they stood when the seed arrived, {len(rows)-first} after a harness or the engine was strengthened.)\n"
mut=json.load(open('/verif/tools/mutants_result.json'))
defs={x['id']:x for x in json.load(open('/verif/tools/mutants.json'))}
mrows=[]
for x in mut:
    ck=', '.join(c for c,v in x.get('checks',{}).items() if v['exit']==1) or '-'
    rt=x.get('repo_tests','')
    suite='fails' if 'FAIL' in rt else ('passes' if rt else 'not run')
    mrows.append(f"| {x['id']} | {x['what']} | {suite} | {x['status']} | {ck} |")
mutants="| mutant | change | suite | result | check(s) reporting VIOLATION |\n|---|---|---|---|---|\n"+'\n'.join(mrows)+"\n"
def put(tag,body):
    global s
    a,b=f"<!-- {tag} -->",f"<!-- /{tag} -->"
    i,j=s.index(a)+len(a),s.index(b)
    s=s[:i]+"\n"+body+s[j:]
def bounds(t):
    if t is None: return '-'
    parts=[]
    for k in ('Preemptions','Stalls','MapOrders','Params','Solver'):
        if k in t and t[k] not in (None,''): parts.append(f"{k}={json.dumps(t[k]) if isinstance(t[k],dict) else t[k]}")
    return ', '.join(parts) or 'defaults'
hrows=[]
for f in sorted(glob.glob('/verif/checks/C*.json')):
    c=json.load(open(f)); d=c.get('defaults',{})
    for h in c['harnesses']:
        q=h['tiers'].get('quick'); t=h['tiers'].get('thorough')
        def eff(x):
            if x is None: return None
            e={k:d[k] for k in ('Preemptions','Stalls','MapOrders','Solver') if k in d}; e.update(x); return e
        hrows.append(f"| {c['property']} | `{h['func'].replace('VerifH_','')}` | {h['pkg'].replace('go.flow.arcalot.io/engine','.')} | {bounds(eff(q))} | {bounds(eff(t))} |")
harn="| property | harness (`VerifH_` prefix dropped) | package | quick bounds | thorough bounds |\n|---|---|---|---|---|\n"+'\n'.join(hrows)+"\n"
put('SEEDS',seeds); put('MUTANTS',mutants); put('HARNESSES',harn)
open(p,'w').write(s)
print(len(rows),'seeds',len(mrows),'mutants')
