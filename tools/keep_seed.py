#!/usr/bin/env python3
"""keep_seed.py <id> <worktree> <property> <caught_by> <needs...>: copies a confirmed seeded change into /verif/seeded/<id>/"""
import sys,os,shutil,json,glob,subprocess
sid,wt,prop,caught=sys.argv[1:5]; needs=' '.join(sys.argv[5:])
d=f'/verif/seeded/{sid}'; os.makedirs(d,exist_ok=True)
shutil.copy(f'{wt}/_seed/patch.diff',f'{d}/patch.diff')
demos=[]
for f in subprocess.run(f"cd {wt} && find . -name 'zz_seed_demo_test.go' -not -path './_seed/*'",shell=True,capture_output=True,text=True).stdout.split():
    rel=f[2:]
    dst=f"{d}/demo/{rel}"
    os.makedirs(os.path.dirname(dst),exist_ok=True)
    shutil.copy(f"{wt}/{rel}",dst); demos.append(rel)
if os.path.exists(f'{wt}/_seed/NOTES.md'): shutil.copy(f'{wt}/_seed/NOTES.md',f'{d}/NOTES.md')
meta={"id":sid,"breaks_property":prop,"needs_to_manifest":needs,"demonstration":demos,
 "confirmed":"tools/confirm_seed.sh in a scratch worktree: go build ./... ok; go test ./workflow/ ./internal/... (demo skipped) passes with the change; the demonstration fails with the change and passes with the change reverted",
 "checks_run":f"git -C /repo apply {d}/patch.diff; /verif/check {prop} (and the checks named in caught_by); git -C /repo checkout -- .",
 "caught_by":caught}
json.dump(meta,open(f'{d}/meta.json','w'),indent=1)
print("kept",sid,demos)
