#!/usr/bin/env python3
"""Regenerates /verif/MANIFEST.json from tools/claims.json (one entry per claimed property)."""
import json
props=[json.loads(l) for l in open('/verif/properties.jsonl')]
claims=json.load(open('/verif/tools/claims.json'))
man={"version":1,
 "setup_cmd":"cd /verif/engine && GOFLAGS=-mod=mod GOPROXY=off GOSUMDB=off GOTOOLCHAIN=local go build -o /verif/bin/symgo ./cmd/symgo",
 "hooks":{"guard":"verif","enable":"harness files carry //go:build verif and are injected with go/packages Overlay (symbolic run) or go test -tags verif -overlay (native replay); no hook is committed to /repo","baseline_off_cmd":"cd /repo && go test -mod=mod -json -vet=off -count=1 -timeout 25m ./...","source_commits":[],"add_only":True},
 "engines":[{"name":"symgo","path":"/verif/engine","serves_properties":sorted(claims['claimed'].keys()),"kind_free_text":"symbolic executor for Go SSA (go/ssa, derived from x/tools interp) with SMT back ends (z3 4.8.12, z3 5.1, cvc5), controlled goroutine scheduler, decision-prefix DFS; harnesses injected by overlay"}],
 "checks":[], "not_applicable":[], "notes":claims.get('notes','')}
for p in props:
    pid=p['id']
    c=claims['claimed'].get(pid)
    if c:
        man['checks'].append({"property_id":pid,
          "quick_cmd":f"/verif/check {pid} --tier quick",
          "thorough_cmd":f"/verif/check {pid} --tier thorough",
          "evidence_file":f"/verif/evidence/{pid}.json",
          "replay_cmd_template":"/verif/check --replay {path}",
          "engine":"symgo",
          "level_claimed":{"category":"model_checking","text":c['text'],"design_ref":c.get('design_ref','DESIGN.md §4 '+pid)},
          "level_note":c['note'],
          "technique":c.get('technique',"bounded symbolic execution of the repository's go/ssa with an SMT solver (z3) deciding every branch and assertion")})
    else:
        man['not_applicable'].append({"property_id":pid,"reason":claims['not_applicable'].get(pid,"check not built yet (work in progress; see DESIGN.md)")})
json.dump(man,open('/verif/MANIFEST.json','w'),indent=1)
print("claimed:",[c['property_id'] for c in man['checks']])
