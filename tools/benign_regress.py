#!/usr/bin/env python3
"""Re-runs the property-preserving changes of /verif/benign against the current checks: every check must exit 0.
usage: benign_regress.py [-j N]   (scratch worktrees of /repo under /tmp, removed afterwards)"""
import sys,os,json,subprocess,concurrent.futures as cf
ENV=dict(os.environ,GOFLAGS='-mod=mod',GOPROXY='off',GOSUMDB='off',GOTOOLCHAIN='local')
CHECKS={'B1':'C01 C02 C03 C04 C06 C07 C08 C09 C14 C15 C17 C19','B2':'C01 C04 C05 C06 C08 C09 C12 C14 C17','B3':'C01 C08 C09 C13 C17','B4':'C02 C08 C10 C11 C15 C16','B5':'C18','B6':'C11 C20','B7':'C01 C02 C03 C04 C06 C07 C08 C09 C10 C14 C15 C16 C17 C19','B8':'C01 C04 C05 C06 C07 C08 C09 C12 C14 C17','B9':'C02 C08 C10 C11 C15 C16','B10':'C01 C03 C05 C06 C07 C09 C14 C17','B11':'C01 C07 C08 C09 C12 C13 C17','B12':'C18','B13':'C01 C04 C05 C06 C08 C09 C12 C14 C17','B14':'C01 C02 C03 C04 C06 C07 C09 C14 C15 C17 C19','B15':'C18','B16':'C01 C06 C08 C09 C13 C17','B17':'C02 C08 C10 C11 C15 C16'}
j=2
if '-j' in sys.argv: j=int(sys.argv[sys.argv.index('-j')+1])
def sh(c): return subprocess.run(c,shell=True,capture_output=True,text=True,env=ENV)
def one(b):
    wt=f'/tmp/benignrun-{b}'
    sh(f"git -C /repo worktree remove --force {wt}; git -C /repo worktree add --detach {wt} HEAD")
    res={'id':b}
    try:
        a=sh(f"git -C {wt} apply --3way /verif/benign/{b}/patch.diff")
        if a.returncode!=0 or sh(f"git -C {wt} diff --name-only --diff-filter=U").stdout.strip():
            res['status']='patch does not apply to HEAD any more'; return res
        if sh(f"cd {wt} && go build ./...").returncode!=0:
            res['status']='does not compile'; return res
        res['checks']={}
        ok=True
        for c in CHECKS[b].split():
            r=subprocess.run(f"/verif/check {c}",shell=True,capture_output=True,text=True,env=dict(ENV,VERIF_REPO=wt,VERIF_EVIDENCE_DIR=wt+'/_ev'))
            res['checks'][c]=r.returncode
            if r.returncode!=0:
                ok=False
                res.setdefault('lines',[]).extend([l.strip()[:200] for l in r.stdout.splitlines() if l.startswith(('  harness','INCONCL','VACUOUS','ERROR'))][:3])
        res['status']='no alarm' if ok else 'ALARM'
    finally:
        sh(f"git -C /repo worktree remove --force {wt}; git -C /repo worktree prune")
    return res
out=[]
with cf.ThreadPoolExecutor(j) as ex:
    only=[a for a in sys.argv[1:] if a.startswith('B')]
    for r in ex.map(one,[b for b in sorted(CHECKS) if not only or b in only]):
        print(r['id'],r['status'],r.get('checks',''),*r.get('lines',[])); sys.stdout.flush(); out.append(r)
json.dump(out,open('/verif/tools/benign_result.json','w'),indent=1)
