#!/usr/bin/env python3
"""Development-time mutation self-test: apply a textual mutant to /repo's working tree, run a check, revert.
usage: mutate.py <file> <old> <new> <check> [<check>...]   (old/new are python-escaped strings)"""
import sys,subprocess,os
f,old,new=sys.argv[1],sys.argv[2].encode().decode('unicode_escape'),sys.argv[3].encode().decode('unicode_escape')
checks=sys.argv[4:]
p=os.path.join('/repo',f)
src=open(p).read()
if src.count(old)!=1:
    print("MUTANT-ERROR: pattern occurs",src.count(old),"times"); sys.exit(2)
open(p,'w').write(src.replace(old,new))
try:
    b=subprocess.run("cd /repo && GOFLAGS=-mod=mod GOPROXY=off GOSUMDB=off GOTOOLCHAIN=local go build ./...",shell=True,capture_output=True,text=True)
    if b.returncode!=0:
        print("MUTANT-ERROR: does not compile:",b.stderr[:300]); sys.exit(2)
    for c in checks:
        r=subprocess.run(f"/verif/check {c}",shell=True,capture_output=True,text=True)
        lines=[l for l in r.stdout.splitlines() if l.startswith(('VIOLATION','  harness','RESULT','INCONCL','VACUOUS'))]
        print(f"[{c}] exit={r.returncode}", "CAUGHT" if r.returncode==1 else "MISSED")
        for l in lines[:6]: print("   ",l[:200])
finally:
    open(p,'w').write(src)
